package rules

import (
	"fmt"
	"go/token"
	"go/types"
	"strings"

	"golang.org/x/tools/go/ssa"

	"vouchcheck/internal/core"
)

func init() {
	register(&Pack{
		ID:  "C11",
		Run: runC11,
		Expl: "Decides structural necessary conditions of 'relays and beacon nodes are told exactly what the configuration says': " +
			"(a) the registration literal takes FeeRecipient/GasLimit from the relay configuration being iterated and Pubkey from util.ValidatorPubkey(account); the per-relay builder is called with the element of proposerConfig.Relays being iterated and the account/pubkey whose proposer config was resolved; " +
			"(b) the registration signer receives the same account and the same registration value; (c) the signed registration is queued under the Address of the same relay element; " +
			"(d) the path that skips signing is guarded by a found cached registration AND latestRoot == registrationRoot, the root is computed before the timestamp is set, and on the signing path both caches are updated with that root/key under their mutexes; " +
			"(e) no early exit from the loops over accounts, relays, relay fan-out, secondary beacon nodes and preparation submitters (a failing validator/relay/node does not stop the others); " +
			"(f) each proposal preparation takes ValidatorIndex from the accounts map key and FeeRecipient from the proposer config resolved for the account of the same iteration, and the preparation list has no skipped (nil) entries; " +
			"(g) forwarded registrations skip controlled keys and copy the four message fields and signature of the same element. " +
			"Added with the third seeding round: (i) the relay client cache is keyed by, and the client created for, the address asked for; (j) no registration/preparation fan-out runs under an errgroup (fail-fast) context. Added with the fourth seeding round: (k) a failed refresh keeps the configuration (shared with C12.d); (l) first matching proposer entry wins (shared with C10.c). Added with the fifth seeding round: (y) C12.l/m/j and C10.f/k (resolver side effects, inherited relays) are taken over: what the registration fan-out sends is what the resolvers return. Added with the sixth seeding round and the false-alarm regression: (y) C10.e (anchored specifiers) is taken over. Added with the eighth seeding round: (n) the key handed to ProposerConfig is never an account's own PublicKey() (also through copy(pubkey[:], …)). NOT decided: histories of configuration changes (reuse is checked as a guard, not over sequences), relay-side acceptance, timing.",
		Technique: "AST loop-exit analysis by role (type of the ranged collection), SSA provenance of composite-literal fields and call arguments, guard/edge-deletion for the reuse condition, sparse-slice detection",
		Rule:      "one obligation per loop (e), per literal field (a,f,g), per call argument (a,b,c), per cache guard/update (d); non-trivial = the construct exists and was analysed",
	})
}

const prepRel = "services/proposalpreparer/standard"

func runC11(p *core.Prog, r *core.Report, tier string) {
	ds := core.NewDescriber()
	la := core.NewLockAnalysis(p)
	relayFns := p.FuncsIn(relayRel)
	prepFns := p.FuncsIn(prepRel)

	// ---- (e) continue-on-error loops, by the type of the ranged collection ----
	roleOf := func(t types.Type) string {
		if t == nil {
			return ""
		}
		s := types.TypeString(t, func(pk *types.Package) string { return pk.Name() })
		switch {
		case strings.HasPrefix(s, "map[phase0.ValidatorIndex]types.Account"):
			return "accounts"
		case s == "[]*beaconblockproposer.RelayConfig":
			return "relays of a validator"
		case strings.HasPrefix(s, "map[string][]*api.VersionedSignedValidatorRegistration"):
			return "relay fan-out"
		case strings.HasSuffix(s, "ValidatorRegistrationsSubmitter"):
			return "secondary beacon nodes"
		case strings.HasSuffix(s, "ProposalPreparationsSubmitter"):
			return "preparation submitters"
		case s == "[]*types.SignedValidatorRegistration":
			return "forwarded registrations"
		}
		return ""
	}
	nLoops := 0
	for _, f := range append(append([]*ssa.Function{}, relayFns...), prepFns...) {
		for _, l := range p.Loops(f) {
			role := roleOf(l.RangeType())
			if role == "" {
				continue
			}
			nLoops++
			noEarlyExit(p, r, "C11.e", l, "loop over "+role)
		}
	}
	r.Count("role loops", nLoops)
	r.Floor("C11.e loops over accounts/relays/nodes", nLoops, 6)

	// ---- (a)(b)(d) the per-relay registration builder: the function that calls SignValidatorRegistration ----
	var gen *ssa.Function
	var sign *ssa.Call
	for _, f := range relayFns {
		for _, ci := range core.CallsNamed(f, "SignValidatorRegistration") {
			if c, ok := ci.(*ssa.Call); ok && c.Call.IsInvoke() {
				gen, sign = f, c
			}
		}
	}
	if gen == nil {
		r.Undecide("C11.anchor", "registration signer call", "", "no call of SignValidatorRegistration in "+relayRel)
		return
	}
	regs := core.StructLits(gen, "api/v1.ValidatorRegistration")
	var reg *core.StructLit
	for _, sl := range regs {
		if strings.Contains(types.TypeString(sl.Alloc.Type(), nil), "go-builder-client") {
			reg = sl
		}
	}
	if reg == nil {
		r.Undecide("C11.a", core.FnKey(gen)+"|registration-literal", p.Pos(gen.Pos()), "no ValidatorRegistration literal in the builder")
		return
	}
	base := core.FnKey(gen) + "|registration"
	relayParam := ""
	for _, fld := range []string{"FeeRecipient", "GasLimit"} {
		v := reg.Fields[fld]
		if v == nil {
			r.Violate("C11.a", base+"|"+fld, p.Pos(reg.Alloc.Pos()), fld+" is not set")
			continue
		}
		d := ds.D(v)
		root, path := d.FieldPath()
		ok := root.Kind == "param" && len(path) == 1 && path[0] == fld && strings.HasSuffix(typeOfRoot(d), "beaconblockproposer.RelayConfig")
		if ok {
			relayParam = root.Name
		}
		r.Check(ok, "C11.a", base+"|"+fld, p.Pos(reg.Alloc.Pos()), fld+" <- relayConfig."+fld, fld+" of the registration is "+d.String()+", expected the relay configuration's "+fld)
	}
	pubParam := ""
	if v := reg.Fields["Pubkey"]; v != nil {
		d := ds.D(v)
		ok := d.Kind == "param" || d.IsCall("util.ValidatorPubkey")
		if d.Kind == "param" {
			pubParam = d.Name
		}
		r.Check(ok, "C11.a", base+"|Pubkey", p.Pos(reg.Alloc.Pos()), "Pubkey <- "+d.String(), "Pubkey of the registration is "+d.String())
	} else {
		r.Violate("C11.a", base+"|Pubkey", p.Pos(reg.Alloc.Pos()), "Pubkey is not set")
	}
	// (b) signer: account param + this registration
	sa := sign.Call.Args
	ad := ds.D(sa[1])
	r.Check(ad.Kind == "param", "C11.b", base+"|signed-by-account", p.Pos(sign.Pos()), "signed with the builder's account parameter", "signed with "+ad.String()+", not the account the registration is for")
	accParam := ad.Name
	signsReg := false
	for _, vl := range core.StructLits(gen, "api.VersionedValidatorRegistration") {
		if vl.Alloc == sa[2] {
			if v1 := vl.Fields["V1"]; v1 == ssa.Value(reg.Alloc) {
				signsReg = true
			}
		}
	}
	r.Check(signsReg, "C11.b", base+"|signed-value", p.Pos(sign.Pos()), "the value signed is the registration built here", "the value handed to the signer is not the registration built from the relay's configuration")

	// (d) reuse guard
	var target ssa.Instruction
	for _, sl := range core.StructLits(gen, "api.VersionedSignedValidatorRegistration") {
		target = sl.Alloc
	}
	if target != nil {
		avoidSign := func(in ssa.Instruction) bool { return in == ssa.Instruction(sign) }
		foundG := func(c core.Cond) int {
			if c.B == nil {
				return -1
			}
			ex, ok := c.B.Val.(*ssa.Extract)
			if !ok || ex.Index != 1 {
				return -1
			}
			lk, ok := ex.Tuple.(*ssa.Lookup)
			if !ok {
				return -1
			}
			if id, ok := core.FieldOfValue(lk.X); !ok || id.Name != "signedValidatorRegistrations" {
				return -1
			}
			if c.BoolOnEdge(0) {
				return 0
			}
			return 1
		}
		sameRootG := func(c core.Cond) int {
			var x, y *core.VD
			truthSucc := -1
			if c.B != nil && c.B.IsCall("bytes.Equal") && len(c.B.Args) == 2 {
				x, y = c.B.Args[0], c.B.Args[1]
				if c.BoolOnEdge(0) {
					truthSucc = 0
				} else {
					truthSucc = 1
				}
			} else if c.Op == "==" || c.Op == "!=" {
				x, y = c.X, c.Y
				for s := 0; s < 2; s++ {
					if c.RelOnEdge(s) == "==" {
						truthSucc = s
					}
				}
			} else {
				return -1
			}
			isLatest := func(d *core.VD) bool {
				return d.Any(func(n *core.VD) bool {
					return n.Kind == "lookup" && n.Args[0].HasFieldSuffix("latestValidatorRegistrations")
				})
			}
			isRoot := func(d *core.VD) bool { return d.MentionsCall("ValidatorRegistration.HashTreeRoot") }
			if (isLatest(x) && isRoot(y)) || (isLatest(y) && isRoot(x)) {
				return truthSucc
			}
			return -1
		}
		for _, g := range []struct {
			name string
			g    core.GuardSpec
			what string
		}{{"found", foundG, "a cached signed registration was found"}, {"same-root", sameRootG, "the validator's latest registration root equals this registration's root"}} {
			est := guardEdges(ds, gen, g.g)
			w := core.PathQuery{Fn: gen, Target: func(in ssa.Instruction) bool { return in == target }, Avoid: avoidSign, Edge: func(b *ssa.BasicBlock, succ int) bool {
				if s, ok := est[b]; ok && s == succ {
					return false
				}
				return true
			}}.Find()
			r.Check(w == nil && len(est) > 0, "C11.d", base+"|reuse-only-if|"+g.name, p.Pos(sign.Pos()), "signing is skipped only when "+g.what,
				"a registration can be reused (signing skipped) without checking that "+g.what, p.WitnessText(w)...)
		}
		// root before timestamp
		if ts := reg.Stores["Timestamp"]; ts != nil {
			for _, h := range core.CallsNamed(gen, "HashTreeRoot") {
				w := core.PathQuery{Fn: gen, From: ts, Target: func(in ssa.Instruction) bool { return in == h.(ssa.Instruction) }}.Find()
				r.Check(w == nil, "C11.d", base+"|root-excludes-timestamp", p.Pos(h.Pos()), "the registration root is computed before the timestamp is set", "the registration root is computed after the timestamp is set (content never compares equal / or always re-signs)")
			}
		}
		// cache updates on the signing path
		for _, want := range []struct{ field, mu string }{{"signedValidatorRegistrations", "signedValidatorRegistrationsMu"}, {"latestValidatorRegistrations", "latestValidatorRegistrationsMu"}} {
			found := false
			for _, op := range core.MapOps(gen) {
				if op.Kind != "insert" || op.Field.Name != want.field {
					continue
				}
				found = true
				okLock := la.HeldAt(gen)[op.Instr].HasName(want.mu, true)
				r.Check(okLock, "C11.d", base+"|cache-update|"+want.field+"|locked", p.Pos(op.Instr.Pos()), "cache updated under its mutex", "cache "+want.field+" updated without "+want.mu)
				kd, vd := ds.D(op.Key), ds.D(op.Val)
				if want.field == "signedValidatorRegistrations" {
					r.Check(kd.MentionsCall("ValidatorRegistration.HashTreeRoot"), "C11.d", base+"|cache-update|"+want.field+"|key", p.Pos(op.Instr.Pos()), "keyed by the registration root", "keyed by "+kd.String())
				} else {
					r.Check(vd.MentionsCall("ValidatorRegistration.HashTreeRoot") && (kd.Kind == "param" && kd.Name == pubParam || kd.IsCall("util.ValidatorPubkey")), "C11.d", base+"|cache-update|"+want.field+"|key", p.Pos(op.Instr.Pos()), "latest[pubkey] = registration root", "latest registration cache stores "+kd.String()+" -> "+vd.String())
				}
				// the update follows a successful sign
				w := core.PathQuery{Fn: gen, Target: func(in ssa.Instruction) bool { return in == op.Instr }, Avoid: avoidSign}.Find()
				r.Check(w == nil, "C11.d", base+"|cache-update|"+want.field+"|after-sign", p.Pos(op.Instr.Pos()), "cache updated only after signing", "cache updated on a path without signing", p.WitnessText(w)...)
			}
			if !found {
				r.Violate("C11.d", base+"|cache-update|"+want.field, p.Pos(sign.Pos()), "the signing path does not record the registration in "+want.field)
			}
		}
	}

	// (a)(c) the caller: element of proposerConfig.Relays, queued under its Address
	nCallers := 0
	for _, f := range relayFns {
		for _, ci := range core.Calls(f, func(c *ssa.CallCommon) bool { return c.StaticCallee() == gen }) {
			call, ok := ci.(*ssa.Call)
			if !ok {
				continue
			}
			nCallers++
			cbase := core.FnKey(f) + "|per-relay"
			args := call.Call.Args
			arg := func(name string) ssa.Value {
				if k := core.ParamIndex(gen, name); k >= 0 && k < len(args) {
					return args[k]
				}
				return nil
			}
			relayV := arg(relayParam)
			if relayV == nil {
				r.Undecide("C11.a", cbase+"|relay-arg", p.Pos(call.Pos()), "cannot identify the relay argument")
				continue
			}
			coll, isElem := core.LoopElem(relayV)
			okElem := isElem && ds.D(coll).HasFieldSuffix("Relays")
			r.Check(okElem, "C11.a", cbase+"|relay-arg", p.Pos(call.Pos()), "builder called with the element of proposerConfig.Relays being iterated", "builder called with "+ds.D(relayV).String()+", not the relay being iterated")
			// proposer config resolved for the same account and pubkey
			if okElem {
				cd := ds.D(coll)
				var pc *core.VD
				cd.Walk(func(x *core.VD) bool {
					if x.Kind == "call" && strings.HasSuffix(x.Name, "ProposerConfig") {
						pc = x
					}
					return true
				})
				if pc != nil && len(pc.Args) >= 4 {
					accA, pubA := arg(accParam), arg(pubParam)
					okAcc := accA != nil && pc.Args[2].String() == ds.D(accA).String()
					okPub := pubA != nil && pc.Args[3].String() == ds.D(pubA).String()
					r.Check(okAcc && okPub, "C11.a", cbase+"|config-of-same-validator", p.Pos(call.Pos()), "the relays iterated belong to the proposer config resolved for the same account and key",
						fmt.Sprintf("proposer config resolved for (%s, %s) but registration built for (%s, %s)", pc.Args[2], pc.Args[3], descOrNil(ds, accA), descOrNil(ds, pubA)))
					if pubA != nil {
						pd := ds.D(pubA)
						okDer := pd.IsCall("util.ValidatorPubkey") && accA != nil && len(pd.Args) == 1 && pd.Args[0].String() == ds.D(accA).String()
						r.Check(okDer, "C11.a", cbase+"|pubkey-of-account", p.Pos(call.Pos()), "pubkey = util.ValidatorPubkey(account)", "pubkey is "+pd.String()+", not the key of the account being registered")
					}
				} else {
					r.Violate("C11.a", cbase+"|config-of-same-validator", p.Pos(call.Pos()), "the relays iterated do not come from a ProposerConfig lookup: "+cd.String())
				}
			}
			// (c) queued under relay.Address of the same element
			queued := false
			for _, op := range mapUpdatesOnParamOrLocal(f) {
				vd := ds.D(op.Value)
				if !vd.MentionsValue(call) {
					continue
				}
				queued = true
				kd := ds.D(op.Key)
				root, path := kd.FieldPath()
				okKey := len(path) == 1 && path[0] == "Address" && root.Val == relayV
				r.Check(okKey, "C11.c", cbase+"|queued-under-relay-address", p.Pos(op.Pos()), "queued under relay.Address of the relay it was built for", "queued under "+kd.String()+", not the address of the relay it was built for")
			}
			r.Check(queued, "C11.c", cbase+"|queued", p.Pos(call.Pos()), "the signed registration is queued for submission", "the signed registration is never queued for its relay")
		}
	}
	r.Floor("C11.a per-relay builder call sites", nCallers, 1)

	// (g) every validator a registration round handles is recorded as controlled, whatever happens to its
	// registrations afterwards: the mark in the controlled set is passed on every path through the per-account
	// function (a validator left out is treated as somebody else's, and registrations supplied from outside
	// for it are forwarded to the relays with their fee recipient)
	nG := 0
	for _, f := range relayFns {
		k := -1
		for i, prm := range f.Params {
			if prm.Name() == "controlledValidators" {
				k = i
			}
		}
		if k < 0 {
			continue
		}
		var marks []ssa.Instruction
		core.EachInstr(f, func(in ssa.Instruction) {
			if mu, ok := in.(*ssa.MapUpdate); ok && mu.Map == ssa.Value(f.Params[k]) {
				marks = append(marks, in)
			}
		})
		nG++
		if len(marks) == 0 {
			r.Violate("C11.h", core.FnKey(f)+"|marks-controlled", p.Pos(f.Pos()), "the validator is never recorded in the controlled set")
			continue
		}
		w := core.PathQuery{Fn: f, Target: core.IsReturn, Avoid: func(in ssa.Instruction) bool {
			for _, m := range marks {
				if in == m {
					return true
				}
			}
			return false
		}}.Find()
		r.Check(w == nil, "C11.h", core.FnKey(f)+"|marks-controlled", p.Pos(marks[0].Pos()), "the validator is recorded as controlled on every path",
			"the function can return without having recorded the validator as controlled (e.g. when its settings or signatures fail): registrations supplied from outside for that validator are then forwarded to the relays", p.WitnessText(w)...)
	}
	r.Floor("C11.h per-account functions filling the controlled set", nG, 1)

	// ---- (i) the relay client that delivers a registration is the client of that relay's own address ----
	if fb := p.Func("util", "", "FetchBuilderClient"); fb != nil {
		var addr *ssa.Parameter
		for _, prm := range fb.Params {
			if b, ok := prm.Type().Underlying().(*types.Basic); ok && b.Kind() == types.String && addr == nil {
				addr = prm
			}
		}
		nKey := 0
		addrAlias := map[*ssa.Function]*ssa.Parameter{}
		var check func(in ssa.Instruction, m, key ssa.Value, what string)
		checkIn := func(fn *ssa.Function, in ssa.Instruction, m, key ssa.Value, what string) {
			if al := addrAlias[fn]; al != nil && key == ssa.Value(al) {
				key = addr // the callee's parameter that receives the address
			}
			check(in, m, key, what)
		}
		check = func(in ssa.Instruction, m, key ssa.Value, what string) {
			ld, ok := m.(*ssa.UnOp)
			if !ok {
				return
			}
			// the cache: a package-level map, or a map field of a package-level object
			rooted := false
			var at ssa.Value = ld.X
			for depth := 0; depth < 5 && at != nil; depth++ {
				switch y := at.(type) {
				case *ssa.Global:
					rooted = true
					at = nil
				case *ssa.FieldAddr:
					at = y.X
				case *ssa.UnOp:
					at = y.X
				case *ssa.Alloc:
					at = singleStoreOf(&ssa.UnOp{X: y, Op: token.MUL})
					if at == nil {
						if st := core.ReachingStoreAny(y); st != nil {
							at = st
						}
					}
				case *ssa.Parameter:
					// the receiver of a method of the cache object: its callers hand in the package-level object
					os := p.ParamOrigins(y.Parent(), 0, 0)
					at = nil
					if len(os) == 1 {
						at = os[0]
					}
				default:
					at = nil
				}
			}
			if !rooted {
				return
			}
			nKey++
			r.Check(addr != nil && key == ssa.Value(addr), "C11.i", fmt.Sprintf("util.FetchBuilderClient|client-cache|%s#%d", what, nKey), p.Pos(in.Pos()), "the client cache is keyed by the relay address itself",
				"the relay client cache is keyed by "+ds.D(key).String()+" instead of the relay's full address: relays whose addresses agree in that part share one client, so one relay receives the other's registrations and the other none")
		}
		scanFns := []*ssa.Function{fb}
		// the cache may live in an object whose method does the work: the same-package callees handed the address
		for _, ci := range core.Calls(fb, func(c *ssa.CallCommon) bool {
			return c.StaticCallee() != nil && c.StaticCallee().Pkg == fb.Pkg && len(c.StaticCallee().Blocks) > 0
		}) {
			for i, a := range ci.Common().Args {
				if a == ssa.Value(addr) && i < len(ci.Common().StaticCallee().Params) {
					callee := ci.Common().StaticCallee()
					scanFns = append(scanFns, callee)
					addrAlias[callee] = callee.Params[i]
				}
			}
		}
		for _, sf := range scanFns {
			sfn := sf
			core.EachInstr(sfn, func(in ssa.Instruction) {
				switch x := in.(type) {
				case *ssa.Lookup:
					checkIn(sfn, in, x.X, x.Index, "lookup")
				case *ssa.MapUpdate:
					checkIn(sfn, in, x.Map, x.Key, "insert")
				}
			})
		}
		r.Floor("C11.i relay client cache accesses", nKey, 2)
		for _, ci := range core.CallsNamed(fb, "WithAddress") {
			r.Check(addr != nil && ci.Common().Args[0] == ssa.Value(addr), "C11.i", "util.FetchBuilderClient|client-address", p.Pos(ci.Pos()), "the client is created for the address asked for", "the client is created for "+ds.D(ci.Common().Args[0]).String()+", not for the address asked for")
		}
	} else {
		r.Undecide("C11.i", "util.FetchBuilderClient", "", "anchor not found")
	}

	// ---- (j) one recipient's failure does not reach the others: no context shared by the fan-out members
	// is cancelled on the first failure (errgroup.WithContext) ----
	checkNoFailFastContext(p, r, "C11.j", []string{"services/blockrelay/standard", "services/proposalpreparer/standard"}, "a failing relay or beacon node aborts the registrations/preparations still in flight to the others")

	// ---- (k) what is registered comes from the last configuration obtained successfully: a failed refresh keeps it
	// (shared with C12.d) ----
	{
		relayRel11 := "services/blockrelay/standard"
		cfgField := core.FieldID{Owner: relayRel11 + ".Service", Name: "executionConfig"}
		cfgMu := core.FieldID{Owner: relayRel11 + ".Service", Name: "executionConfigMu"}
		nSt := checkConfigStores(p, r, ds, core.NewLockAnalysis(p), "C11.k", p.FuncsIn(relayRel11), cfgField, cfgMu)
		r.Floor("C11.k stores to executionConfig outside New", nSt, 1)
	}
	// ---- (l) the fee recipient and gas limit registered are those of the first matching proposer entry (shared
	// with C10.c) ----
	{
		nOpt := 0
		for _, f := range p.FuncsIn("services/blockrelay/v2") {
			for _, l := range p.Loops(f) {
				t := l.RangeType()
				if t == nil || !strings.Contains(t.String(), "v2.ProposerConfig") {
					continue
				}
				nOpt += checkFirstMatchOptions(p, r, ds, "C11.l", f, l)
			}
		}
		r.Floor("C11.l proposer entry applications", nOpt, 1)
	}

	// ---- (n) the settings of a validator are looked up under the validator's key: where the key handed to
	// ProposerConfig is taken from the account, it is util.ValidatorPubkey(account) — the composite key of a
	// distributed account — never the account's own PublicKey() (a key share no proposer entry is written for) ----
	nPC := 0
	for _, f := range p.SrcFuncs() {
		for _, ci := range core.Calls(f, func(c *ssa.CallCommon) bool { return core.MethodName(c) == "ProposerConfig" }) {
			var pk ssa.Value
			for _, a := range ci.Common().Args {
				if strings.HasSuffix(a.Type().String(), "phase0.BLSPubKey") {
					pk = a
				}
			}
			if pk == nil {
				continue
			}
			nPC++
			d := ds.D(pk)
			isShare := func(x *core.VD) bool { return x.Kind == "call" && strings.HasSuffix(x.Name, "Account.PublicKey") }
			share := d.Any(isShare)
			via := d.MentionsCall("util.ValidatorPubkey")
			// a key array filled in place: copy(pubkey[:], …)
			if ld, ok := pk.(*ssa.UnOp); ok {
				if al, ok := ld.X.(*ssa.Alloc); ok && al.Referrers() != nil {
					for _, ref := range *al.Referrers() {
						sl, ok := ref.(*ssa.Slice)
						if !ok || sl.Referrers() == nil {
							continue
						}
						for _, r2 := range *sl.Referrers() {
							if c, ok := r2.(*ssa.Call); ok {
								if b, ok := c.Call.Value.(*ssa.Builtin); ok && b.Name() == "copy" && c.Call.Args[0] == ssa.Value(sl) {
									sd := ds.D(c.Call.Args[1])
									if sd.Any(isShare) {
										share = true
										d = sd
									}
								}
							}
						}
					}
				}
			}
			r.Check(!share || via, "C11.n", fmt.Sprintf("%s|proposer-config-key#%d", core.FnKey(f), nPC), p.Pos(ci.Pos()), "the key the settings are looked up under is not an account's own PublicKey()",
				"the settings are looked up under "+d.String()+": for a distributed account this is the key share, which no proposer entry names — the validator gets the default settings instead of its own")
		}
	}
	r.Floor("C11.n ProposerConfig call sites", nPC, 5)

	// ---- (f) preparations ----
	nPrep := 0
	for _, f := range prepFns {
		for _, sl := range core.StructLits(f, "api/v1.ProposalPreparation") {
			nPrep++
			pbase := core.FnKey(f) + "|preparation"
			// ValidatorIndex V and the account whose config supplies the fee recipient must belong together:
			// key/value of one iteration over the accounts map, or account = accounts[V].
			vi, fr := sl.Fields["ValidatorIndex"], sl.Fields["FeeRecipient"]
			if vi == nil || fr == nil {
				r.Violate("C11.f", pbase+"|fields", p.Pos(sl.Alloc.Pos()), "ValidatorIndex or FeeRecipient is not set")
				continue
			}
			d := ds.D(fr)
			okFR := d.HasFieldSuffix("FeeRecipient") && d.MentionsCall("ProposerConfig")
			r.Check(okFR, "C11.f", pbase+"|FeeRecipient", p.Pos(sl.Alloc.Pos()), "FeeRecipient <- ProposerConfig(...).FeeRecipient", "FeeRecipient is "+d.String()+", not the resolved proposer configuration's")
			paired := false
			if rg, which, ok := core.MapRange(vi); ok && which == 1 {
				paired = d.Any(func(x *core.VD) bool {
					r2, w2, isR := core.MapRange(x.Val)
					return isR && w2 == 2 && r2 == rg
				})
			}
			if !paired {
				paired = d.Any(func(x *core.VD) bool {
					return x.Kind == "lookup" && x.Args[1].Val == vi && strings.Contains(types.TypeString(x.Args[0].Val.Type(), nil), "ValidatorIndex")
				})
			}
			r.Check(paired, "C11.f", pbase+"|index-account-pairing", p.Pos(sl.Alloc.Pos()), "the fee recipient is resolved for the account belonging to the ValidatorIndex of the same entry",
				"ValidatorIndex ("+ds.D(vi).String()+") and the account whose configuration supplies the fee recipient do not belong together")
		}
	}
	r.Floor("C11.f preparation literals", nPrep, 1)
	eng := newIdxEngine(p)
	for _, rel := range []string{prepRel, relayRel} {
		sp := eng.SparseFills(rel)
		for _, s := range sp {
			r.Violate("C11.f", s.Fn+"|sparse-batch|"+s.Var, p.Pos(s.Pos), "slice "+s.Var+" is created with a length and filled by an indexed store that can be skipped: it keeps nil entries, which make the receiving node reject the whole batch")
		}
		if len(sp) == 0 {
			r.Hold("C11.f", rel+"|no-sparse-batch", "", "no pointer slice is pre-sized and conditionally filled")
		}
	}

	// ---- (g) forwarding ----
	for _, f := range relayFns {
		if f.Name() != "ValidatorRegistrations" {
			continue
		}
		for _, sl := range core.StructLits(f, "api/v1.ValidatorRegistration") {
			var roots []string
			for _, fld := range []string{"FeeRecipient", "GasLimit", "Timestamp", "Pubkey"} {
				v := sl.Fields[fld]
				if v == nil {
					r.Violate("C11.g", core.FnKey(f)+"|forward|"+fld, p.Pos(sl.Alloc.Pos()), fld+" is not copied")
					continue
				}
				d := ds.D(v)
				r.Check(d.HasFieldSuffix("Message", fld), "C11.g", core.FnKey(f)+"|forward|"+fld, p.Pos(sl.Alloc.Pos()), fld+" copied from the registration's message", fld+" is "+d.String())
				root, _ := d.FieldPath()
				roots = append(roots, root.String())
			}
			same := len(roots) == 4
			for _, x := range roots {
				if x != roots[0] {
					same = false
				}
			}
			r.Check(same, "C11.g", core.FnKey(f)+"|forward|same-element", p.Pos(sl.Alloc.Pos()), "all fields from one registration", "fields come from different registrations")
			// skip controlled
			w := core.Unguarded(ds, f, nil, func(in ssa.Instruction) bool { return in == ssa.Instruction(sl.Alloc) }, func(c core.Cond) int {
				if c.B == nil {
					return -1
				}
				ex, ok := c.B.Val.(*ssa.Extract)
				if !ok || ex.Index != 1 {
					return -1
				}
				lk, ok := ex.Tuple.(*ssa.Lookup)
				if !ok || !ds.D(lk.X).HasFieldSuffix("controlledValidators") {
					return -1
				}
				if c.BoolOnEdge(0) {
					return 1
				}
				return 0
			})
			r.Check(w == nil, "C11.g", core.FnKey(f)+"|forward|skip-controlled", p.Pos(sl.Alloc.Pos()), "registrations of controlled validators are not forwarded", "a registration can be forwarded without the controlled-validator test", p.WitnessText(w)...)
		}
	}
}

// mapUpdatesOnParamOrLocal lists MapUpdate instructions of f.
func mapUpdatesOnParamOrLocal(f *ssa.Function) []*ssa.MapUpdate {
	var out []*ssa.MapUpdate
	core.EachInstr(f, func(in ssa.Instruction) {
		if mu, ok := in.(*ssa.MapUpdate); ok {
			out = append(out, mu)
		}
	})
	return out
}

// checkNoFailFastContext: in the given packages (prefixes) the context returned by errgroup.WithContext — which is
// cancelled as soon as one member of the group fails — is not used: the members of a fan-out do not take each
// other down.
func checkNoFailFastContext(p *core.Prog, r *core.Report, rule string, rels []string, consequence string) {
	nEg := 0
	for _, f := range p.SrcFuncs() {
		rel := core.RelPkg(f.Pkg.Pkg.Path())
		in := false
		for _, x := range rels {
			if rel == x || strings.HasPrefix(rel, x) {
				in = true
			}
		}
		if !in {
			continue
		}
		for _, ci := range core.Calls(f, func(c *ssa.CallCommon) bool { return strings.HasSuffix(core.CalleeName(c), "errgroup.WithContext") }) {
			call, ok := ci.(*ssa.Call)
			if !ok {
				continue
			}
			ex := core.ExtractOf(call, 1)
			used := ex != nil && ex.Referrers() != nil && len(*ex.Referrers()) > 0
			nEg++
			r.Check(!used, rule, fmt.Sprintf("%s|fail-fast-context#%d", core.FnKey(f), nEg), p.Pos(ci.Pos()), "the group's fail-fast context is not used",
				"the members of this fan-out run under the context of errgroup.WithContext, which is cancelled as soon as one of them fails: "+consequence)
		}
	}
	if nEg == 0 {
		r.Hold(rule, "no-fail-fast-context", "", "no fan-out in "+strings.Join(rels, ", ")+" runs under an errgroup context")
	}
}
