package rules

import (
	"fmt"
	"go/constant"
	"go/token"
	"go/types"
	"sort"
	"strings"

	"golang.org/x/tools/go/ssa"

	"vouchcheck/internal/core"
)

func init() {
	register(&Pack{
		ID:  "C13",
		Run: runC13,
		Expl: "Decides structural necessary conditions of 'only configured accounts validate, and only while active' for both account managers (dirk, wallet; checked as siblings against one template) and the validators manager: " +
			"(a) every string compiled into a verification regexp is produced by a format whose literal begins with ^ and joins wallet and account with '/', and ends with $ (or omits it only on the arm where the account part already ends with $); " +
			"(b) an account enters the result only under a successful MatchString of \"wallet/account\" against a configured regexp, or under dirk's short-circuit flag, which is set only when the single regexp's text EQUALS ^wallet/.*$; " +
			"(c) the validating filter accepts exactly {active_ongoing, active_exiting} and sync-committee eligibility exactly {active_ongoing, active_exiting, active_slashed, exited_unslashed, exited_slashed, withdrawal_possible} (exhaustive partial evaluation of the predicates over all ten validator states), the state is computed by ValidatorToState(validator, nil, epoch parameter, far-future epoch); " +
			"(d) the result map is keyed by the index under which the validators manager returned the validator whose public key selects the account; the validators manager fills its three maps from one element per iteration and keys ValidatorsByPubKey results by validatorPubKeyToIndex of the same key; " +
			"(e) dirk replaces accounts and pubKeys only when NOT (new list empty and old list non-empty); the validators manager replaces its maps only after a nil error and a non-empty result; " +
			"(f) the by-index variants add an account only for requested indices. " +
			"Added with the fourth seeding round: (g) the validators manager's maps are accessed under validatorsMutex. Added with the fifth seeding round: (h) the validators manager is refreshed once with the whole list of public keys, not in a loop and not with a part of the list. Added with the sixth seeding round and the false-alarm regression: (c) the state-predicate evaluator also evaluates membership in a package-level set with constant keys. Added with the eighth seeding round: (f, extended) every non-nil result of a by-index query is the map it filled itself; (n) no package-level collection in util or the account managers is keyed by the bare account name; (y) C15.j is taken over. Added with the ninth seeding round: (p) the validators manager's request to the beacon node carries no state filter. Added with the tenth seeding round: (q) every successful return of RefreshValidatorsFromBeaconNode passes the store of the new maps, except on the nothing-received edge; (b, extended) the name matched may be assembled in a byte buffer fed from wallet.Name(), '/', account.Name() only. NOT decided: which names a regular expression admits (regexp semantics), correctness of ValidatorToState (library), unlock behaviour.",
		Technique: "string-shape analysis of regexp sources, guard/edge-deletion queries through boolean flags, exhaustive finite-enum partial evaluation of state predicates, provenance of map keys/values, sibling template conformance",
		Rule:      "obligations per compiled specifier (a), per result insertion (b,d,f), per predicate x 10 states (c), per replacing store (e)",
	})
}

var validatingStates = []string{"ValidatorStateActiveOngoing", "ValidatorStateActiveExiting"}
var syncEligibleStates = []string{"ValidatorStateActiveOngoing", "ValidatorStateActiveExiting", "ValidatorStateActiveSlashed", "ValidatorStateExitedUnslashed", "ValidatorStateExitedSlashed", "ValidatorStateWithdrawalPossible"}

func runC13(p *core.Prog, r *core.Report, tier string) {
	ds := core.NewDescriber()
	la := core.NewLockAnalysis(p)
	mgrs := []string{"services/accountmanager/dirk", "services/accountmanager/wallet"}

	// the validator state enum
	var statePkg *types.Package
	for _, pk := range p.All {
		for _, imp := range pk.Imports {
			if strings.HasSuffix(imp.PkgPath, "go-eth2-client/api/v1") && imp.Types != nil {
				statePkg = imp.Types
			}
		}
	}
	stateConsts := map[string]constant.Value{}
	if statePkg != nil {
		for _, n := range statePkg.Scope().Names() {
			if c, ok := statePkg.Scope().Lookup(n).(*types.Const); ok && strings.HasSuffix(c.Type().String(), "ValidatorState") {
				stateConsts[n] = c.Val()
			}
		}
	}
	r.Floor("C13.c validator states known", len(stateConsts), 10)
	// the library's own predicates on the state (go-eth2-client api/v1/validatorstate.go, read at v0.21.11):
	// plain disjunctions over the enum; listed here so that a predicate written in terms of them is evaluated
	libPred := map[string][]string{
		"IsPending":    {"ValidatorStatePendingInitialized", "ValidatorStatePendingQueued"},
		"IsActive":     {"ValidatorStateActiveOngoing", "ValidatorStateActiveExiting", "ValidatorStateActiveSlashed"},
		"HasActivated": {"ValidatorStateActiveOngoing", "ValidatorStateActiveExiting", "ValidatorStateActiveSlashed", "ValidatorStateExitedUnslashed", "ValidatorStateExitedSlashed", "ValidatorStateWithdrawalPossible", "ValidatorStateWithdrawalDone"},
		"IsAttesting":  {"ValidatorStateActiveOngoing", "ValidatorStateActiveExiting"},
		"IsExited":     {"ValidatorStateExitedUnslashed", "ValidatorStateExitedSlashed"},
		"HasExited":    {"ValidatorStateExitedUnslashed", "ValidatorStateExitedSlashed", "ValidatorStateWithdrawalPossible", "ValidatorStateWithdrawalDone"},
	}
	core.EnumCallHook = func(c *ssa.Call, get func(ssa.Value) (constant.Value, bool)) (constant.Value, bool) {
		callee := c.Call.StaticCallee()
		if callee == nil || callee.Signature.Recv() == nil || !strings.HasSuffix(callee.Signature.Recv().Type().String(), "ValidatorState") || len(c.Call.Args) != 1 {
			return nil, false
		}
		v, ok := get(c.Call.Args[0])
		if !ok {
			return nil, false
		}
		if callee.Name() == "HasBalance" {
			return constant.MakeBool(!constant.Compare(v, token.EQL, stateConsts["ValidatorStateUnknown"])), true
		}
		set, ok := libPred[callee.Name()]
		if !ok {
			return nil, false
		}
		for _, n := range set {
			if cv, ok := stateConsts[n]; ok && constant.Compare(v, token.EQL, cv) {
				return constant.MakeBool(true), true
			}
		}
		return constant.MakeBool(false), true
	}

	evalPredicate := func(f *ssa.Function, want []string, construct, pos string) {
		wantSet := map[string]bool{}
		for _, w := range want {
			wantSet[w] = true
		}
		var got []string
		var names []string
		for n := range stateConsts {
			names = append(names, n)
		}
		sort.Strings(names)
		for _, n := range names {
			res, ok := core.EvalBoolFunc(f, stateConsts[n])
			if !ok {
				r.Undecide("C13.c", construct+"|"+n, pos, "the predicate is outside the evaluable fragment (comparisons/boolean operators on the state)")
				return
			}
			if res {
				got = append(got, n)
			}
			r.Check(res == wantSet[n], "C13.c", construct+"|"+n, pos, fmt.Sprintf("%s -> %v", n, res), fmt.Sprintf("state %s is %s but the specification says the opposite", n, map[bool]string{true: "accepted", false: "rejected"}[res]))
		}
		r.Tables[construct] = got
	}

	for _, rel := range mgrs {
		fns := p.FuncsIn(rel)
		tag := rel[strings.LastIndex(rel, "/")+1:]
		if len(fns) == 0 {
			r.Undecide("C13.anchor", rel, "", "package not found")
			continue
		}
		// ---- (a) anchored specifiers ----
		nComp := 0
		for _, f := range fns {
			for _, ci := range core.Calls(f, func(c *ssa.CallCommon) bool {
				return c.StaticCallee() != nil && core.FnKey(c.StaticCallee()) == "regexp.Compile"
			}) {
				nComp++
				arg := ci.Common().Args[0]
				for i, lf := range core.PhiLeaves(arg, ci.(ssa.Instruction)) {
					construct := fmt.Sprintf("%s|%s|specifier#%d", tag, core.FnKey(f), i+1)
					// Sprintf(format, ...) possibly followed by constant suffixes (spec += "$")
					tail := ""
					lv := lf.V
					for {
						bo, isAdd := lv.(*ssa.BinOp)
						if !isAdd || bo.Op != token.ADD {
							break
						}
						cs, isConst := constString(bo.Y)
						if !isConst {
							break
						}
						tail = cs + tail
						lv = bo.X
					}
					call, ok := lv.(*ssa.Call)
					format := ""
					var fpos token.Pos
					if !ok || call.Call.StaticCallee() == nil || call.Call.StaticCallee().Name() != "Sprintf" {
						// the same built by concatenation: "^" + wallet + "/" + account + "$" reads as the format ^%s/%s$
						var flat func(v ssa.Value) (string, bool)
						flat = func(v ssa.Value) (string, bool) {
							if cs, isC := constString(v); isC {
								return strings.ReplaceAll(cs, "%", "%%"), true
							}
							if bo, isAdd := v.(*ssa.BinOp); isAdd && bo.Op == token.ADD {
								a, ok1 := flat(bo.X)
								b, ok2 := flat(bo.Y)
								return a + b, ok1 && ok2
							}
							if bt, isB := v.Type().Underlying().(*types.Basic); isB && bt.Info()&types.IsString != 0 {
								return "%s", true
							}
							return "", false
						}
						ff, okF := flat(lf.V)
						if _, isAdd := lf.V.(*ssa.BinOp); !isAdd || !okF || !strings.Contains(ff, "%s") {
							r.Violate("C13.a", construct, p.Pos(ci.Pos()), "the compiled specifier is not built from a constant format: "+ds.D(lf.V).String())
							continue
						}
						format, fpos = ff, ci.Pos()
					} else {
						format, _ = constString(call.Call.Args[0])
						format += tail
						fpos = call.Pos()
					}
					okStart := strings.HasPrefix(format, "^")
					okJoin := strings.Contains(format, "%s/%s")
					okEnd := strings.HasSuffix(format, "$")
					if !okEnd {
						// allowed only when the account part already ends with $
						w := core.UnguardedLeaf(ds, f, nil, lf, func(c core.Cond) int {
							if c.B != nil && c.B.IsCall("strings.HasSuffix") && len(c.B.Args) == 2 {
								if s, ok := constString(c.B.Args[1].Val); ok && s == "$" {
									if c.BoolOnEdge(0) {
										return 0
									}
									return 1
								}
							}
							return -1
						})
						okEnd = w == nil
					}
					r.Check(okStart && okJoin && okEnd, "C13.a", construct, p.Pos(fpos), fmt.Sprintf("format %q is anchored at both ends and joins wallet/account", format),
						fmt.Sprintf("the specifier format %q is not anchored at both ends (a configured name would also admit longer account or wallet names)", format))
				}
			}
		}
		r.Floor("C13.a regexp compilations in "+tag, nComp, 1)

		// ---- (b) match gates use ----
		nIns := 0
		for _, f := range fns {
			if !strings.Contains(strings.ToLower(f.Name()), "fetchaccountsforwallet") && (f.Parent() == nil || !strings.Contains(strings.ToLower(f.Parent().Name()), "fetchaccountsforwallet")) {
				continue
			}
			core.EachInstr(f, func(in ssa.Instruction) {
				mu, ok := in.(*ssa.MapUpdate)
				if !ok || !strings.Contains(mu.Map.Type().String(), "BLSPubKey") {
					return
				}
				nIns++
				construct := tag + "|" + core.FnKey(f) + "|account-accepted"
				matched := func(c core.Cond) int {
					if c.B == nil {
						return -1
					}
					// the flag itself is a MatchString result
					if c.B.IsCall("regexp.Regexp.MatchString") || c.B.IsCall("regexp.Regexp.Match") {
						if c.BoolOnEdge(0) {
							return 0
						}
						return 1
					}
					phi, ok := c.B.Val.(*ssa.Phi)
					if !ok {
						return -1
					}
					// a boolean flag: every 'true' leaf must flow in under MatchString == true or under the short-circuit equality
					sawTrue := false
					for _, lf := range core.PhiLeaves(phi, phi) {
						cv, isC := lf.V.(*ssa.Const)
						if !isC || cv.Value == nil {
							return -1
						}
						if !constant.BoolVal(cv.Value) {
							continue
						}
						sawTrue = true
						holder := lf.Pred.Parent()
						w := core.UnguardedLeaf(ds, holder, nil, lf, func(c2 core.Cond) int {
							if c2.B != nil && (c2.B.IsCall("regexp.Regexp.MatchString") || c2.B.IsCall("regexp.Regexp.Match")) {
								if c2.BoolOnEdge(0) {
									return 0
								}
								return 1
							}
							// short-circuit: regexp text == "^wallet/.*$"
							if c2.Op == "==" || c2.Op == "!=" {
								for _, pair := range [][2]*core.VD{{c2.X, c2.Y}, {c2.Y, c2.X}} {
									if pair[0].IsCall("regexp.Regexp.String") && pair[1].IsCall("fmt.Sprintf") {
										if fs, ok := sprintfExpanded(pair[1].Val); ok && fs == "^%s/.*$" {
											for s := 0; s < 2; s++ {
												if c2.RelOnEdge(s) == "==" {
													return s
												}
											}
										}
									}
								}
							}
							return -1
						})
						if w != nil {
							return -1
						}
					}
					if !sawTrue {
						return -1
					}
					// established when the flag is true; for the short-circuit flag the code tests !shortCircuit
					if c.BoolOnEdge(0) {
						return 0
					}
					return 1
				}
				w := core.Unguarded(ds, f, nil, func(x ssa.Instruction) bool { return x == in }, matched)
				r.Check(w == nil, "C13.b", construct, p.Pos(mu.Pos()), "an account is accepted only after its wallet/account name matched a configured specifier (or the exact whole-wallet short-circuit)",
					"an account offered by the wallet/signer can be accepted without its name having matched a configured specifier", p.WitnessText(w)...)
			})
			// the name matched is "wallet/account"
			// … also when it is assembled as bytes in a buffer: the buffer is fed from wallet.Name(), a '/' and account.Name()
			for _, mc := range core.CallsNamed(f, "Match") {
				if callee := mc.Common().StaticCallee(); callee == nil || callee.Signature.Recv() == nil || !strings.HasSuffix(callee.Signature.Recv().Type().String(), "regexp.Regexp") {
					continue
				}
				sawWallet, sawAccount, sawSlash, other := false, false, false, ""
				seen := map[ssa.Value]bool{}
				var walk func(v ssa.Value, depth int)
				walk = func(v ssa.Value, depth int) {
					if v == nil || seen[v] || depth > 12 {
						return
					}
					seen[v] = true
					switch x := v.(type) {
					case *ssa.Phi:
						for _, e := range x.Edges {
							walk(e, depth+1)
						}
					case *ssa.Slice:
						walk(x.X, depth+1)
					case *ssa.Convert:
						walk(x.X, depth+1)
					case *ssa.Const:
						if core.IsIntConst(x, '/') {
							sawSlash = true
						}
					case *ssa.Alloc:
						// the varargs array of an append: its element stores
						if x.Referrers() != nil {
							for _, ref := range *x.Referrers() {
								if ia, ok := ref.(*ssa.IndexAddr); ok && ia.Referrers() != nil {
									for _, r2 := range *ia.Referrers() {
										if st, ok := r2.(*ssa.Store); ok {
											walk(st.Val, depth+1)
										}
									}
								}
							}
						}
					case *ssa.Call:
						if b, ok := x.Call.Value.(*ssa.Builtin); ok && b.Name() == "append" {
							for _, a := range x.Call.Args {
								walk(a, depth+1)
							}
							return
						}
						n := core.CalleeName(x.Common())
						switch {
						case strings.HasSuffix(n, "Wallet.Name"):
							sawWallet = true
						case strings.HasSuffix(n, "Account.Name"):
							sawAccount = true
						default:
							other = n
						}
					default:
						other = ds.D(v).String()
					}
				}
				walk(mc.Common().Args[len(mc.Common().Args)-1], 0)
				r.Check(sawWallet && sawAccount && sawSlash && other == "", "C13.b", tag+"|"+core.FnKey(f)+"|matched-name", p.Pos(mc.Pos()), "the bytes matched are wallet.Name(), '/', account.Name()", "the bytes matched against the specifiers are not assembled from wallet.Name(), '/' and account.Name() only (also: "+other+")")
			}
			for _, mc := range core.CallsNamed(f, "MatchString") {
				nd := ds.D(mc.Common().Args[len(mc.Common().Args)-1])
				okName := nd.IsCall("fmt.Sprintf") && nd.MentionsCall("Wallet.Name") && nd.MentionsCall("Account.Name")
				if okName {
					fs, _ := constString(nd.Args[0].Val)
					okName = fs == "%s/%s"
				}
				r.Check(okName, "C13.b", tag+"|"+core.FnKey(f)+"|matched-name", p.Pos(mc.Pos()), "the name matched is wallet.Name()/account.Name()", "the name matched against the specifiers is "+nd.String())
			}
		}
		r.Floor("C13.b account insertions in "+tag, nIns, 1)

		// ---- (c) state filters ----
		nPred := 0
		for _, f := range fns {
			if f.Parent() != nil || !strings.HasPrefix(f.Name(), "ValidatingAccounts") {
				continue
			}
			// the state predicates this entry point hands on: a literal, a named function, or the function held in a
			// field of a package-level filter value
			for _, pred := range statePredicatesPassed(f) {
				nPred++
				evalPredicate(pred, validatingStates, tag+"|"+core.FnKey(f)+"|validating-filter", p.Pos(f.Pos()))
			}
		}
		r.Floor("C13.c validating predicates in "+tag, nPred, 2)
		// sync committee variants pass utils.IsSyncCommitteeEligible
		for _, f := range fns {
			if !strings.HasPrefix(f.Name(), "SyncCommitteeAccounts") {
				continue
			}
			okPass := false
			for _, fn := range statePredicatesPassed(f) {
				if fn.Name() == "IsSyncCommitteeEligible" {
					okPass = true
				}
			}
			r.Check(okPass, "C13.c", tag+"|"+core.FnKey(f)+"|uses-eligibility-predicate", p.Pos(f.Pos()), "sync committee accounts are filtered by IsSyncCommitteeEligible", "sync committee accounts are not filtered by IsSyncCommitteeEligible")
		}
		// ValidatorToState arguments
		for _, f := range fns {
			for _, ci := range core.CallsNamed(f, "ValidatorToState") {
				a := ci.Common().Args
				if len(a) != 4 {
					continue
				}
				ed := ds.D(a[2])
				r.Check(ed.Kind == "param" && ed.Name == "epoch", "C13.c", tag+"|"+core.FnKey(f)+"|state-epoch", p.Pos(ci.Pos()), "state computed for the method's epoch parameter", "state computed for "+ed.String()+" instead of the requested epoch")
				r.Check(core.IsNilConst(a[1]), "C13.c", tag+"|"+core.FnKey(f)+"|state-balance", p.Pos(ci.Pos()), "no balance passed (state from epochs only)", "a balance is passed to ValidatorToState")
				r.Check(ds.D(a[3]).HasFieldSuffix("farFutureEpoch"), "C13.c", tag+"|"+core.FnKey(f)+"|far-future", p.Pos(ci.Pos()), "far-future epoch from the service", "far-future epoch is "+ds.D(a[3]).String())
				vd := ds.D(a[0])
				_, which, isR := core.MapRange(a[0])
				r.Check(isR && which == 2, "C13.c", tag+"|"+core.FnKey(f)+"|state-validator", p.Pos(ci.Pos()), "state of the validator being iterated", "state computed for "+vd.String())
			}
		}

		// (f) what a by-index query returns is the map it filled itself under the requested-only guard, or the answer of
		// another by-index query — not the answer of an unrestricted one (when nothing was requested, for instance)
		for _, f := range fns {
			if strings.Contains(f.Name(), "ByIndex") && f.Parent() == nil {
				checkOwnFilteredResult(p, r, ds, "C13.f", tag+"|"+core.FnKey(f), f)
			}
		}
		// ---- (d)(f) result keyed by the validators manager's index ----
		for _, f := range fns {
			if !strings.HasPrefix(f.Name(), "accountsForEpoch") {
				continue
			}
			// (f) what a by-index query returns without an error is the map it filled itself under the requested-only
			// guard — not the answer of another query (the unrestricted one, for instance, when nothing was requested)
			core.EachInstr(f, func(in ssa.Instruction) {
				mu, ok := in.(*ssa.MapUpdate)
				if !ok || !strings.Contains(mu.Map.Type().String(), "map[github.com/attestantio/go-eth2-client/spec/phase0.ValidatorIndex]") {
					return
				}
				if b, ok := mu.Map.Type().Underlying().(*types.Map); ok {
					if _, isBool := b.Elem().Underlying().(*types.Basic); isBool {
						return // the request set
					}
					if st, isStruct := b.Elem().Underlying().(*types.Struct); isStruct && st.NumFields() == 0 {
						return // the request set as map[K]struct{}
					}
				}
				construct := tag + "|" + core.FnKey(f) + "|result-entry"
				rg, which, isR := core.MapRange(mu.Key)
				okKey := isR && which == 1 && ds.D(rg.X).MentionsCall("ValidatorsByPubKey")
				r.Check(okKey, "C13.d", construct+"|key", p.Pos(mu.Pos()), "keyed by the index returned by the validators manager", "result keyed by "+ds.D(mu.Key).String())
				vd := ds.D(mu.Value)
				okVal := vd.Any(func(x *core.VD) bool {
					if x.Kind != "lookup" || !x.Args[0].HasFieldSuffix("accounts") {
						return false
					}
					kd := x.Args[1]
					if !kd.HasFieldSuffix("PublicKey") {
						return false
					}
					root, _ := kd.FieldPath()
					r2, w2, ok2 := core.MapRange(root.Val)
					return ok2 && w2 == 2 && r2 == rg
				})
				r.Check(okVal, "C13.d", construct+"|value", p.Pos(mu.Pos()), "value is the account of that validator's public key", "the account stored is not the one selected by the public key of the validator of the same iteration: "+vd.String())
				// passes the filter
				w := core.Unguarded(ds, f, nil, func(x ssa.Instruction) bool { return x == in }, func(c core.Cond) int {
					if c.B == nil {
						return -1
					}
					if call, ok := c.B.Val.(*ssa.Call); ok && !call.Call.IsInvoke() && call.Call.StaticCallee() == nil {
						// the filter handed in: a func(ValidatorState) bool value (a parameter, or a field of a filter parameter)
						if sg, ok := call.Call.Value.Type().Underlying().(*types.Signature); ok && sg.Params().Len() == 1 && strings.HasSuffix(sg.Params().At(0).Type().String(), "ValidatorState") && sg.Results().Len() == 1 {
							if c.BoolOnEdge(0) {
								return 0
							}
							return 1
						}
					}
					return -1
				})
				r.Check(w == nil, "C13.d", construct+"|state-filter", p.Pos(mu.Pos()), "an account is reported only when the state filter accepts its validator", "an account can be reported without the state filter having accepted its validator", p.WitnessText(w)...)
				if strings.Contains(f.Name(), "ByIndex") {
					checkRequestedOnly(p, r, ds, "C13.f", construct, f, mu)
				}
			})
		}
	}

	// (g) the validators manager's three maps are read as one consistent set: every access holds validatorsMutex (a
	// refresh swaps all three in one critical section; a reader that lets go of the lock between two of them pairs a
	// validator of the old set with an index of the new one)
	nVM := checkFieldsUnderMutex(p, r, core.NewLockAnalysis(p), "C13.g", "services/validatorsmanager/standard", []string{"validatorsByIndex", "validatorsByPubKey", "validatorPubKeyToIndex"}, "validatorsMutex",
		"a refresh between this access and the others makes the lookup mix two validator sets (an account reported under another validator's index, or under index 0)")
	r.Floor("C13.g accesses to the validators manager's maps", nVM, 6)

	// ---- (p) the validators manager asks the beacon node for its validators whatever their state: a state filter on
	// the request drops the validators in the states it leaves out (exited members of a sync committee, validators
	// about to activate) from the cache at the next refresh ----
	nOpts := 0
	for _, f := range p.FuncsIn("services/validatorsmanager/standard") {
		for _, sl := range core.StructLits(f, "api.ValidatorsOpts") {
			nOpts++
			_, filtered := sl.Fields["ValidatorStates"]
			at := sl.Alloc.Pos()
			if filtered {
				at = sl.Stores["ValidatorStates"].Pos()
			}
			r.Check(!filtered, "C13.p", fmt.Sprintf("%s|validators-request#%d|no-state-filter", core.FnKey(f), nOpts), p.Pos(at), "the validators are requested without a state filter", "the request for the validators carries a state filter: validators in a state the filter leaves out disappear from the manager's cache although the account managers still have to report them (sync committee eligibility lasts until withdrawal is done)")
		}
	}
	r.Floor("C13.p validators requests of the validators manager", nOpts, 1)

	// ---- (q) a refresh that received validators replaces what is cached: in RefreshValidatorsFromBeaconNode every
	// successful return passes the store of the new maps, except the one taken when nothing was received — no
	// "unchanged, skip" shortcut (what it would compare is never everything the account managers read: exit epochs,
	// the slashed flag) ----
	if rf := p.Func("services/validatorsmanager/standard", "Service", "RefreshValidatorsFromBeaconNode"); rf != nil {
		var stores []ssa.Instruction
		core.EachInstr(rf, func(in ssa.Instruction) {
			if st, ok := in.(*ssa.Store); ok {
				if fid, _, ok := core.FieldOfAddr(st.Addr); ok && fid.Name == "validatorsByIndex" {
					stores = append(stores, in)
				}
			}
		})
		emptyEdges := core.GuardEdges(ds, rf, func(c core.Cond) int {
			if c.Op == "" || c.X == nil || c.Y == nil {
				return -1
			}
			isLen := func(d *core.VD) bool {
				if call, ok := d.Val.(*ssa.Call); ok {
					if b, ok := call.Call.Value.(*ssa.Builtin); ok && b.Name() == "len" {
						return true
					}
				}
				return false
			}
			var k *core.VD
			if isLen(c.X) {
				k = c.Y
			} else if isLen(c.Y) {
				k = c.X
			} else {
				return -1
			}
			if k.Kind != "const" || k.Name != "0" {
				return -1
			}
			for e := 0; e < 2; e++ {
				if c.RelOnEdge(e) == "==" {
					return e
				}
			}
			return -1
		})
		w := core.PathQuery{Fn: rf, Target: func(in ssa.Instruction) bool {
			rt, ok := in.(*ssa.Return)
			return ok && in.Block() != rf.Recover && len(rt.Results) == 1 && core.IsNilConst(core.Unspill(rt.Results[0]))
		}, Avoid: func(in ssa.Instruction) bool {
			for _, st := range stores {
				if in == st {
					return true
				}
			}
			return false
		}, Edge: func(b *ssa.BasicBlock, succ int) bool {
			if e, ok := emptyEdges[b]; ok && e == succ {
				return false
			}
			return true
		}}.Find()
		r.Check(len(stores) > 0 && w == nil, "C13.q", core.FnKey(rf)+"|non-empty-refresh-replaces-cache", p.Pos(rf.Pos()), "a refresh that received validators always stores them", "the refresh can return successfully without storing the validators it received (other than when it received none): a validator whose state changed — slashed, exit epoch set — keeps its old record and is still reported as validating", p.WitnessText(w)...)
	} else {
		r.Undecide("C13.q", "services/validatorsmanager/standard.Service.RefreshValidatorsFromBeaconNode", "", "anchor not found")
	}

	// ---- (n) what is remembered about an account is remembered under something that identifies the account: a
	// package-level collection (a map, a sync.Map) in util or the account managers is not keyed by the bare account name
	// — accounts of different wallets share names ----
	nKeyed := 0
	for _, rel := range []string{"util", "services/accountmanager/dirk", "services/accountmanager/wallet"} {
		for _, f := range p.FuncsIn(rel) {
			core.EachInstr(f, func(in ssa.Instruction) {
				var key ssa.Value
				switch x := in.(type) {
				case *ssa.MapUpdate:
					if ld, ok := x.Map.(*ssa.UnOp); ok {
						if _, isG := ld.X.(*ssa.Global); isG {
							key = x.Key
						}
					}
				case *ssa.Lookup:
					if ld, ok := x.X.(*ssa.UnOp); ok {
						if _, isG := ld.X.(*ssa.Global); isG {
							key = x.Index
						}
					}
				case *ssa.Call:
					if callee := x.Call.StaticCallee(); callee != nil && callee.Signature.Recv() != nil && strings.HasSuffix(callee.Signature.Recv().Type().String(), "sync.Map") && len(x.Call.Args) >= 2 {
						if _, isG := x.Call.Args[0].(*ssa.Global); isG {
							key = x.Call.Args[1]
						}
					}
				}
				if key == nil {
					return
				}
				d := ds.D(key)
				byName := d.Any(func(v *core.VD) bool { return v.Kind == "call" && strings.HasSuffix(v.Name, "Account.Name") })
				if !byName {
					return
				}
				nKeyed++
				byID := d.Any(func(v *core.VD) bool {
					return v.Kind == "call" && (strings.HasSuffix(v.Name, "Account.ID") || strings.HasSuffix(v.Name, "Account.PublicKey") || strings.HasSuffix(v.Name, "CompositePublicKey") || strings.HasSuffix(v.Name, "Wallet.Name") || strings.HasSuffix(v.Name, "Wallet.ID"))
				})
				r.Check(byID, "C13.n", fmt.Sprintf("%s|package-level-collection-keyed-by-account-name#%d", core.FnKey(f), nKeyed), p.Pos(in.Pos()), "the key also names the wallet or the account's identity", "a package-level collection is keyed by "+d.String()+", the bare name of the account: two wallets that each hold an account of that name share the entry, and the second account is given the first one's data (its public key)")
			})
		}
	}
	if nKeyed == 0 {
		r.Hold("C13.n", "no-package-level-collection-keyed-by-account-name", "", "no package-level collection in util or the account managers is keyed by an account's name")
	}

	// (h) the validators manager's refresh replaces the whole set, so it is asked once, with the whole list of public
	// keys: not in a loop, not with a part of the list (only the last batch would stay known)
	nRef := 0
	for _, f := range p.SrcFuncs() {
		if !strings.HasPrefix(core.RelPkg(f.Pkg.Pkg.Path()), "services/accountmanager") {
			continue
		}
		for _, ci := range core.Calls(f, func(c *ssa.CallCommon) bool {
			return c.IsInvoke() && c.Method.Name() == "RefreshValidatorsFromBeaconNode"
		}) {
			nRef++
			args := ci.Common().Args
			last := args[len(args)-1]
			_, partial := last.(*ssa.Slice)
			inLoop := core.InLoop(ci.(ssa.Instruction))
			r.Check(!partial && !inLoop, "C13.h", fmt.Sprintf("%s|whole-set-refresh#%d", core.FnKey(f), nRef), p.Pos(ci.Pos()), "the validators are refreshed once with the whole list of public keys",
				"the validators manager (whose refresh replaces its whole set) is refreshed in parts — in a loop and/or with a sub-slice of the public keys: only the validators of the last part stay known, the accounts of the others stop being reported as validating")
		}
	}
	r.Floor("C13.h validator refresh calls in the account managers", nRef, 2)

	// IsSyncCommitteeEligible
	if f := p.Func("services/accountmanager/utils", "", "IsSyncCommitteeEligible"); f != nil {
		evalPredicate(f, syncEligibleStates, "utils.IsSyncCommitteeEligible", p.Pos(f.Pos()))
	} else {
		r.Undecide("C13.c", "utils.IsSyncCommitteeEligible", "", "anchor not found")
	}

	// ---- (e) retain on empty: dirk ----
	if f := p.Func("services/accountmanager/dirk", "Service", "refreshAccounts"); f != nil {
		// NOT (new list empty AND old list non-empty) is established on the edge where the new list is non-empty
		// or on the edge where the old list is empty (the condition is lowered to two branches or to an && phi)
		est := core.GuardEdges(ds, f, func(c core.Cond) int {
			if c.Op == "" || c.X.Kind != "len" || c.Y.Kind != "const" || c.Y.Name != "0" {
				return -1
			}
			// the known list is a field of the service itself; anything else (a local, a field of a local
			// accumulator) is the freshly fetched one
			a0 := c.X.Args[0]
			isOld := a0.Kind == "field" && len(a0.Args) == 1 && a0.Args[0].Kind == "param" && len(f.Params) > 0 && a0.Args[0].Name == f.Params[0].Name()
			for s := 0; s < 2; s++ {
				rel := c.RelOnEdge(s)
				if !isOld && (rel == "!=" || rel == ">") {
					return s
				}
				if isOld && rel == "==" {
					return s
				}
			}
			return -1
		})
		nStore := 0
		core.EachInstr(f, func(in ssa.Instruction) {
			st, ok := in.(*ssa.Store)
			if !ok {
				return
			}
			id, _, ok := core.FieldOfAddr(st.Addr)
			if !ok || (id.Name != "accounts" && id.Name != "pubKeys") || !strings.HasSuffix(id.Owner, "dirk.Service") {
				return
			}
			nStore++
			w := core.PathQuery{Fn: f, Target: func(x ssa.Instruction) bool { return x == in }, Edge: func(b *ssa.BasicBlock, succ int) bool {
				if s, ok := est[b]; ok && s == succ {
					return false
				}
				return true
			}}.Find()
			r.Check(w == nil && len(est) > 0, "C13.e", "dirk|refreshAccounts|replace-"+id.Name, p.Pos(st.Pos()), id.Name+" is replaced only when the refresh did not come back empty over a non-empty list", "an empty refresh can replace the known "+id.Name+" (everything known is wiped until the next good refresh)", p.WitnessText(w)...)
			r.Check(la.HeldAt(f)[in].HasOwner(id.Owner, true), "C13.e", "dirk|refreshAccounts|replace-"+id.Name+"|locked", p.Pos(st.Pos()), "replaced under the write lock", id.Name+" replaced without the write lock")
		})
		r.Floor("C13.e dirk replacing stores", nStore, 2)
	} else {
		r.Undecide("C13.e", "dirk.refreshAccounts", "", "anchor not found")
	}

	// ---- (e)(d) validators manager ----
	vmRel := "services/validatorsmanager/standard"
	if f := p.Func(vmRel, "Service", "RefreshValidatorsFromBeaconNode"); f != nil {
		var call *ssa.Call
		for _, ci := range core.CallsNamed(f, "Validators") {
			if c, ok := ci.(*ssa.Call); ok && c.Call.IsInvoke() {
				call = c
			}
		}
		nSt := 0
		core.EachInstr(f, func(in ssa.Instruction) {
			st, ok := in.(*ssa.Store)
			if !ok {
				return
			}
			id, _, ok := core.FieldOfAddr(st.Addr)
			if !ok || !strings.HasSuffix(id.Owner, "validatorsmanager/standard.Service") {
				return
			}
			if _, isMap := st.Val.Type().Underlying().(*types.Map); !isMap {
				return
			}
			nSt++
			isSt := func(x ssa.Instruction) bool { return x == in }
			if call != nil {
				errEx := core.ExtractOf(call, 1)
				w := core.Unguarded(ds, f, call, isSt, func(c core.Cond) int { return core.ErrNilSucc(c, errEx) })
				r.Check(w == nil, "C13.e", "validatorsmanager|replace-"+id.Name+"|after-success", p.Pos(st.Pos()), "replaced only after a successful fetch", "the validator maps can be replaced after a failed fetch", p.WitnessText(w)...)
			}
			w := core.Unguarded(ds, f, nil, isSt, func(c core.Cond) int {
				if c.Op == "" || c.X.Kind != "len" || c.Y.Kind != "const" || c.Y.Name != "0" {
					return -1
				}
				if call != nil && !c.X.MentionsValue(call) {
					return -1
				}
				for s := 0; s < 2; s++ {
					if rel := c.RelOnEdge(s); rel == "!=" || rel == ">" {
						return s
					}
				}
				return -1
			})
			r.Check(w == nil, "C13.e", "validatorsmanager|replace-"+id.Name+"|non-empty", p.Pos(st.Pos()), "replaced only by a non-empty result", "an empty result can replace the known validators", p.WitnessText(w)...)
			r.Check(la.HeldAt(f)[in].HasOwner(id.Owner, true), "C13.e", "validatorsmanager|replace-"+id.Name+"|locked", p.Pos(st.Pos()), "replaced under the write lock", "replaced without the write lock")
		})
		r.Floor("C13.e validators manager replacing stores", nSt, 3)
		// the three maps are filled from the same element
		var elems []string
		core.EachInstr(f, func(in ssa.Instruction) {
			mu, ok := in.(*ssa.MapUpdate)
			if !ok {
				return
			}
			kd, vd := ds.D(mu.Key), ds.D(mu.Value)
			kr := kd
			for kr.Kind == "field" {
				kr = kr.Args[0]
			}
			vr := vd
			for vr.Kind == "field" {
				vr = vr.Args[0]
			}
			elems = append(elems, kr.String(), vr.String())
		})
		same := len(elems) >= 6
		for _, e := range elems {
			if e != elems[0] {
				same = false
			}
		}
		r.Check(same, "C13.d", "validatorsmanager|maps-from-one-element", p.Pos(f.Pos()), "index, public key and validator of each entry come from one element", "the validator maps are filled from different elements")
	}
	if f := p.Func(vmRel, "Service", "ValidatorsByPubKey"); f != nil {
		core.EachInstr(f, func(in ssa.Instruction) {
			mu, ok := in.(*ssa.MapUpdate)
			if !ok {
				return
			}
			kd, vd := ds.D(core.SoleFeasibleLeaf(f, mu.Key, mu)), ds.D(core.SoleFeasibleLeaf(f, mu.Value, mu))
			okK := kd.Kind == "lookup" && kd.Args[0].HasFieldSuffix("validatorPubKeyToIndex")
			okV := vd.Any(func(x *core.VD) bool { return x.Kind == "lookup" && x.Args[0].HasFieldSuffix("validatorsByPubKey") })
			sameKey := false
			if okK && okV {
				var vk string
				vd.Walk(func(x *core.VD) bool {
					if x.Kind == "lookup" && x.Args[0].HasFieldSuffix("validatorsByPubKey") {
						vk = x.Args[1].String()
					}
					return true
				})
				sameKey = vk == kd.Args[1].String()
			}
			r.Check(okK && okV && sameKey, "C13.d", "validatorsmanager|ValidatorsByPubKey|entry", p.Pos(mu.Pos()), "result[index of pubkey] = validator of the same pubkey", "the result pairs index "+kd.String()+" with validator "+vd.String())
		})
	}
}

// checkOwnFilteredResult: what a by-index query returns without an error is the map it filled itself.
func checkOwnFilteredResult(p *core.Prog, r *core.Report, ds *core.Describer, rule, construct string, f *ssa.Function) {
	for k, ret := range core.ReturnsOf(f) {
		if len(ret.Results) != 2 || ret.Block() == f.Recover {
			continue
		}
		if _, isMap := ret.Results[0].Type().Underlying().(*types.Map); !isMap {
			continue
		}
		own := true
		for _, lf := range core.PhiLeaves(core.Unspill(ret.Results[0]), ret) {
			if _, isMake := lf.V.(*ssa.MakeMap); isMake || core.IsNilConst(lf.V) {
				continue
			}
			// a wrapper hands on the answer of another by-index query
			if ex, ok := lf.V.(*ssa.Extract); ok {
				if call, ok := ex.Tuple.(*ssa.Call); ok && strings.Contains(core.MethodName(call.Common()), "ByIndex") {
					continue
				}
			}
			own = false
		}
		r.Check(own, rule, fmt.Sprintf("%s|return#%d|own-filtered-result", construct, k+1), p.Pos(ret.Pos()), "the by-index query returns the map it filled itself",
			"the by-index query returns "+ds.D(ret.Results[0]).String()+", not the map it filled under the requested-only guard: validators that were not requested are reported (every account, when the list of requested indices is empty)")
	}
}

// checkRequestedOnly: the insert mu into the result of a by-index lookup is reached only on the edge on which its
// key was found in the set of requested indices (`_, present := set[key]` or, for a bool-valued set, `set[key]`).
func checkRequestedOnly(p *core.Prog, r *core.Report, ds *core.Describer, rule, construct string, f *ssa.Function, mu *ssa.MapUpdate) {
	keyS := ds.D(mu.Key).String()
	w := core.Unguarded(ds, f, nil, func(x ssa.Instruction) bool { return x == ssa.Instruction(mu) }, func(c core.Cond) int {
		if c.B == nil || c.B.Val == nil {
			return -1
		}
		var lk *ssa.Lookup
		switch x := c.B.Val.(type) {
		case *ssa.Extract:
			if x.Index != 1 {
				return -1
			}
			lk, _ = x.Tuple.(*ssa.Lookup)
		case *ssa.Lookup:
			if b, ok := x.Type().Underlying().(*types.Basic); ok && b.Kind() == types.Bool && !x.CommaOk {
				lk = x
			}
		}
		if lk == nil || ds.D(lk.Index).String() != keyS {
			return -1
		}
		if c.BoolOnEdge(0) {
			return 0
		}
		return 1
	})
	r.Check(w == nil, rule, construct+"|requested-only", p.Pos(mu.Pos()), "only requested indices are reported", "the by-index variant can report a validator that was not requested (for instance every account when the list of requested indices is empty)", p.WitnessText(w)...)
}

// statePredicatesPassed: the func(ValidatorState) bool values a function hands to the calls it makes — directly, or as a
// field of a package-level struct value that is filled by the package initialiser.
func statePredicatesPassed(f *ssa.Function) []*ssa.Function {
	isPred := func(t types.Type) bool {
		sg, ok := t.Underlying().(*types.Signature)
		return ok && sg.Params().Len() == 1 && strings.HasSuffix(sg.Params().At(0).Type().String(), "ValidatorState") && sg.Results().Len() == 1
	}
	var out []*ssa.Function
	seen := map[*ssa.Function]bool{}
	add := func(fn *ssa.Function) {
		if fn != nil && !seen[fn] && isPred(fn.Signature) {
			seen[fn] = true
			out = append(out, fn)
		}
	}
	core.EachInstr(f, func(in ssa.Instruction) {
		c, ok := in.(*ssa.Call)
		if !ok {
			return
		}
		for _, a := range c.Call.Args {
			if isPred(a.Type()) {
				add(funcValueOf(a))
				continue
			}
			// a struct value loaded from a package-level variable
			ld, ok := a.(*ssa.UnOp)
			if !ok {
				continue
			}
			g, ok := ld.X.(*ssa.Global)
			if !ok || g.Pkg == nil {
				continue
			}
			initFn := g.Pkg.Func("init")
			if initFn == nil {
				continue
			}
			core.EachInstr(initFn, func(x ssa.Instruction) {
				st, ok := x.(*ssa.Store)
				if !ok {
					return
				}
				fa, ok := st.Addr.(*ssa.FieldAddr)
				if !ok || fa.X != ssa.Value(g) || !isPred(st.Val.Type()) {
					return
				}
				add(funcValueOf(st.Val))
			})
		}
	})
	return out
}
