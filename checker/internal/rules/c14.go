package rules

import (
	"fmt"
	"go/ast"
	"go/constant"
	"go/token"
	"go/types"
	"sort"
	"strings"

	"golang.org/x/tools/go/ssa"

	"vouchcheck/internal/core"
)

func init() {
	register(&Pack{
		ID:  "C14",
		Run: runC14,
		Expl: "Decides structural necessary conditions of 'future attester duties are all subscribed; every selected aggregator aggregates': " +
			"(a) the loops that build the subscription list handed to SubmitBeaconCommitteeSubscriptions have no exit other than exhaustion (a non-future slot must be skipped, not end the loop); " +
			"(b) each subscription takes Slot/CommitteeIndex from the keys of the two nested loops and ValidatorIndex/CommitteesAtSlot/IsAggregator from the info element of the same iteration; " +
			"(c) in the per-duty info calculation every per-validator array (duty arrays, aggregators, signatures, accounts, committee sizes) is indexed by the range index over the duty's validators; " +
			"(d) in AttestAndScheduleAggregate the loop over the slot's attestations has no exit other than exhaustion, the aggregation job is scheduled only under info.IsAggregator, is named after that attestation's slot and committee and captures that info's validator and slot signature; " +
			"(e) aggregators[i] is computed from the i-th signature and i-th committee size with the TARGET_AGGREGATORS_PER_COMMITTEE divisor clamped to >= 1. " +
			"(f) a validator's info is left out of the per-committee record only when an aggregator is already recorded for that slot and committee, and a recorded aggregator is never replaced; " +
			"(g) the controller's stored subscription info is replaced only by the result of a successful Subscribe and deleted only for an epoch before the chain's present one. " +
			"Added with the third seeding round: (i) the subscription info returned to the controller is calculated from all merged duties of the response and the accounts passed in; (d, extended) every branch deciding whether an attestation's aggregation job is reached is a presence flag, nil/error test, emptiness test, IsAggregator, or slot < current slot. Added with the fourth seeding round: (k) fields named after chain constants are filled from them. Added with the fifth seeding round: (x) the cross-cutting rules inside the subscriber packages. Added with the sixth seeding round and the false-alarm regression: (y) C03.o and C03.f are taken over (contexts handed to the scheduler outlive the handler; a changed current dependent root refreshes the next epoch's attester duties); (e) accepts the one-shot hash and max() clamp. Added with the eighth seeding round: (m) a return of attester.Attest that carries attestations carries a nil error (the controller schedules no aggregation after an error); (y) C06.k is taken over. Added with the eleventh seeding round: (d, extended) the epoch's subscription record is read after Attest has returned. NOT decided: the selection arithmetic against the specification (hash mod n), timing.",
		Technique: "AST loop-exit analysis, SSA guard/edge-deletion queries, provenance of composite-literal fields and call arguments, index-space analysis of per-validator arrays",
		Rule:      "one obligation per loop (a,d), per literal field (b,d), per indexed access (c), per store (e); non-trivial = the anchor construct exists and was analysed",
	})
}

const (
	bcsRel  = "services/beaconcommitteesubscriber/standard"
	ctrlRel = "services/controller/standard"
	aggRel  = "services/attestationaggregator/standard"
)

// loopsBuilding returns the loops of fn whose body assigns (appends) to the variable that is passed as
// argument argIdx of the given call.
func loopsContainingPos(p *core.Prog, fn *ssa.Function, pos token.Pos) []*core.Loop {
	var out []*core.Loop
	for _, l := range p.Loops(fn) {
		if l.Contains(pos) {
			out = append(out, l)
		}
	}
	return out
}

// appendSitesTo finds positions of `x = append(x, ...)` for the object of identifier x.
func appendSitesTo(p *core.Prog, fn *ssa.Function, obj types.Object) []token.Pos {
	var out []token.Pos
	body := core.FuncBody(fn)
	pk := p.PkgOf(fn)
	if body == nil || pk == nil {
		return nil
	}
	// the variable and every variable whose value is copied into it by a plain assignment (x := y,
	// x, _ = y, z; var x T = y) — a helper's result reaches its caller's variable through such copies
	aliases := map[types.Object]bool{obj: true}
	for changed := true; changed; {
		changed = false
		ast.Inspect(body, func(n ast.Node) bool {
			if _, ok := n.(*ast.FuncLit); ok && n != fn.Syntax() {
				return false
			}
			link := func(lhs, rhs ast.Expr) {
				l, ok1 := lhs.(*ast.Ident)
				r0, ok2 := rhs.(*ast.Ident)
				if !ok1 || !ok2 {
					return
				}
				lo, ro := pk.TypesInfo.ObjectOf(l), pk.TypesInfo.ObjectOf(r0)
				if lo != nil && ro != nil && aliases[lo] && !aliases[ro] {
					if _, isVar := ro.(*types.Var); isVar {
						aliases[ro] = true
						changed = true
					}
				}
			}
			switch x := n.(type) {
			case *ast.AssignStmt:
				if len(x.Lhs) == len(x.Rhs) {
					for i := range x.Lhs {
						link(x.Lhs[i], x.Rhs[i])
					}
				}
			case *ast.ValueSpec:
				if len(x.Names) == len(x.Values) {
					for i := range x.Names {
						link(x.Names[i], x.Values[i])
					}
				}
			}
			return true
		})
	}
	ast.Inspect(body, func(n ast.Node) bool {
		if _, ok := n.(*ast.FuncLit); ok && n != fn.Syntax() {
			return false
		}
		as, ok := n.(*ast.AssignStmt)
		if !ok || len(as.Lhs) != 1 || len(as.Rhs) != 1 {
			return true
		}
		id, ok := as.Lhs[0].(*ast.Ident)
		if !ok || !aliases[pk.TypesInfo.ObjectOf(id)] {
			return true
		}
		if call, ok := as.Rhs[0].(*ast.CallExpr); ok {
			if f, ok := call.Fun.(*ast.Ident); ok && f.Name == "append" {
				out = append(out, as.Pos())
			}
		}
		return true
	})
	return out
}

// identObjAt finds the identifier expression at the position of an SSA call argument (by source position of the call).
func callExprAt(p *core.Prog, fn *ssa.Function, pos token.Pos) *ast.CallExpr {
	body := core.FuncBody(fn)
	if body == nil {
		return nil
	}
	var found *ast.CallExpr
	ast.Inspect(body, func(n ast.Node) bool {
		if c, ok := n.(*ast.CallExpr); ok && c.Lparen == pos {
			found = c
		}
		return found == nil
	})
	return found
}

func noEarlyExit(p *core.Prog, r *core.Report, rule string, l *core.Loop, what string) {
	ex := l.EarlyExits()
	construct := core.FnKey(l.Fn) + "|loop " + l.Describe()
	if len(ex) == 0 {
		r.Hold(rule, construct, p.Pos(l.Stmt.Pos()), what+": the loop is only left by exhaustion")
		return
	}
	var wit []string
	for _, e := range ex {
		wit = append(wit, p.Pos(e.Stmt.Pos())+"  "+e.Kind)
	}
	r.Violate(rule, construct, p.Pos(ex[0].Stmt.Pos()), what+": the loop can be left early, skipping the remaining elements", wit...)
}

func runC14(p *core.Prog, r *core.Report, tier string) {
	ds := core.NewDescriber()

	// ---- (m) attestations that were made are reported without an error: the controller gives up on the slot (no
	// aggregation is scheduled) whenever Attest returns an error, so a return that carries attestations carries a nil error ----
	if at := p.Func("services/attester/standard", "Service", "Attest"); at != nil {
		for k, ret := range core.ReturnsOf(at) {
			if len(ret.Results) != 2 || ret.Block() == at.Recover {
				continue
			}
			carries := false
			for _, lf := range core.PhiLeaves(core.Unspill(ret.Results[0]), ret) {
				if !core.IsNilConst(lf.V) && !alwaysNilResult(lf.V) {
					carries = true
				}
			}
			if !carries {
				continue
			}
			errNil := true
			for _, lf := range core.PhiLeaves(core.Unspill(ret.Results[1]), ret) {
				if !core.IsNilConst(lf.V) {
					errNil = false
				}
			}
			r.Check(errNil, "C14.m", fmt.Sprintf("%s|return#%d|attestations-without-error", core.FnKey(at), k+1), p.Pos(ret.Pos()), "a return that carries attestations carries no error",
				"Attest can return the attestations it made together with an error: its caller stops at the error, so no aggregation is scheduled for the committees that did attest")
		}
	} else {
		r.Undecide("C14.m", "services/attester/standard.Service.Attest", "", "anchor not found")
	}

	// ---- (a),(b): subscription list ----
	nA := 0
	for _, f := range p.FuncsIn(bcsRel) {
		for _, ci := range core.CallsNamed(f, "SubmitBeaconCommitteeSubscriptions") {
			if !ci.Common().IsInvoke() {
				continue
			}
			ce := callExprAt(p, f, ci.Pos())
			pk := p.PkgOf(f)
			if ce == nil || pk == nil || len(ce.Args) < 2 {
				r.Undecide("C14.a", core.FnKey(f)+"|submit", p.Pos(ci.Pos()), "cannot locate the submit call in the syntax tree")
				continue
			}
			id, ok := ce.Args[1].(*ast.Ident)
			if !ok {
				r.Undecide("C14.a", core.FnKey(f)+"|submit", p.Pos(ci.Pos()), "subscription argument is not a variable")
				continue
			}
			obj := pk.TypesInfo.ObjectOf(id)
			sites := appendSitesTo(p, f, obj)
			r.Count("append sites", len(sites))
			seen := map[*core.Loop]bool{}
			for _, pos := range sites {
				for _, l := range loopsContainingPos(p, f, pos) {
					if seen[l] {
						continue
					}
					seen[l] = true
					nA++
					noEarlyExit(p, r, "C14.a", l, "subscription-building loop")
				}
			}
			// the submit call itself must be reached whenever the list was built: no return between the loops and the call
			// (every path from function entry to a normal return passes the submit call or an append-free early return)
		}
		// (b) literal content
		for _, sl := range core.StructLits(f, "BeaconCommitteeSubscription") {
			checkSubscriptionLit(p, r, ds, f, sl)
		}
	}
	r.Floor("C14.a subscription-building loops", nA, 2)

	// ---- (i): the information returned to the controller is calculated from all duties of the epoch ----
	nI := 0
	for _, f := range p.FuncsIn("services/beaconcommitteesubscriber/standard") {
		for _, ci := range core.Calls(f, func(c *ssa.CallCommon) bool {
			callee := c.StaticCallee()
			return callee != nil && callee.Name() == "calculateSubscriptionInfo"
		}) {
			nI++
			args := ci.Common().Args
			okDuties, okAccounts := false, false
			var what string
			for _, a := range args {
				if sl, ok := a.Type().Underlying().(*types.Slice); ok && strings.HasSuffix(sl.Elem().String(), "attester.Duty") {
					d := ds.D(a)
					what = d.String()
					ds0 := d.String()
					okDuties = strings.HasPrefix(ds0, "services/attester.MergeDuties(") && strings.HasSuffix(ds0, ")#0") && d.MentionsCall("AttesterDuties")
				}
				if _, ok := a.Type().Underlying().(*types.Map); ok {
					if prm, ok := a.(*ssa.Parameter); ok && prm.Parent() == f {
						okAccounts = true
					}
				}
			}
			r.Check(okDuties, "C14.i", core.FnKey(f)+"|info-from-all-duties", p.Pos(ci.Pos()), "the subscription info is calculated from the merged duties of the whole response",
				"the subscription info handed back to the controller is calculated from "+what+", not from all merged duties of the beacon node's response: slots left out (e.g. the current slot) have no aggregator information, so no aggregation job is set up for their selected aggregators")
			r.Check(okAccounts, "C14.i", core.FnKey(f)+"|info-for-all-accounts", p.Pos(ci.Pos()), "the subscription info is calculated for the accounts passed in", "the subscription info is not calculated for the accounts the caller passed")
		}
	}
	r.Floor("C14.i subscription info calculations", nI, 1)

	// ---- (k): chain constants are read under their own names: a field that is named after a chain-specification
	// constant is filled from that constant (the attestation aggregator's TARGET_AGGREGATORS_PER_COMMITTEE is not the
	// sync committee's TARGET_AGGREGATORS_PER_SYNC_SUBCOMMITTEE, although both are 16 on the public networks) ----
	nSpec := checkSpecConstantNames(p, r, "C14.k")
	r.Floor("C14.k fields filled from chain constants", nSpec, 8)

	// ---- (d): aggregation scheduling ----
	nD := 0
	for _, f := range p.FuncsIn(ctrlRel) {
		for _, ci := range core.CallsNamed(f, "ScheduleJob") {
			args := ci.Common().Args
			if !ci.Common().IsInvoke() || len(args) < 5 {
				continue
			}
			// the aggregation job: its job function calls attestationAggregator.Aggregate
			jf := jobFuncOf(args[4])
			if jf == nil || len(core.CallsNamed(jf, "Aggregate")) == 0 || !strings.Contains(core.CalleeNameOfFirst(jf, "Aggregate"), "attestationaggregator") {
				continue
			}
			nD++
			in := ci.(ssa.Instruction)
			for _, l := range loopsContainingPos(p, f, ci.Pos()) {
				noEarlyExit(p, r, "C14.d", l, "loop over the slot's attestations")
			}
			// the subscription record that decides who aggregates is read after the attestation has been made: a read
			// taken ahead of the (blocking) Attest call misses a subscription that completes meanwhile (start-up, duty
			// refresh), and the aggregator recorded in it gets no job
			for _, at := range core.CallsNamed(f, "Attest") {
				if !at.Common().IsInvoke() {
					continue
				}
				core.EachInstr(f, func(x ssa.Instruction) {
					lk, ok := x.(*ssa.Lookup)
					if !ok {
						return
					}
					id, ok := core.FieldOfValue(lk.X)
					if !ok || id.Name != "subscriptionInfos" {
						return
					}
					r.Check(core.InstrDominates(at.(ssa.Instruction), lk), "C14.d", core.FnKey(f)+"|subscription-record-read-after-attesting", p.Pos(lk.Pos()), "the epoch's subscription record is read after Attest has returned",
						"the epoch's subscription record is read before the attestation is made (a blocking call): a subscription stored or refreshed while Attest runs is not seen, and the aggregator it records gets no aggregation job")
				})
			}
			// the only reasons for which an attestation of the loop gets no aggregation job
			checkSkipConditions(p, r, ds, f, in)
			// guarded by IsAggregator
			w := core.Unguarded(ds, f, nil, func(x ssa.Instruction) bool { return x == in }, func(c core.Cond) int {
				if c.B != nil && c.B.HasFieldSuffix("IsAggregator") {
					if c.BoolOnEdge(0) {
						return 0
					}
					return 1
				}
				return -1
			})
			r.Check(w == nil, "C14.d", core.FnKey(f)+"|schedule-aggregate|guard", p.Pos(ci.Pos()), "aggregation job is scheduled only when info.IsAggregator",
				"aggregation job can be scheduled without the IsAggregator test", p.WitnessText(w)...)
			// and is not suppressed by anything else than the documented skips: the IsAggregator guard's info is the one used below
			// job name: slot and committee of the attestation being iterated
			nd := ds.D(args[2])
			okName := nd.Any(func(x *core.VD) bool { return x.HasFieldSuffix("Data", "Slot") }) && nd.Any(func(x *core.VD) bool { return x.HasFieldSuffix("Data", "Index") })
			r.Check(okName, "C14.d", core.FnKey(f)+"|schedule-aggregate|name", p.Pos(ci.Pos()), "job name carries the attestation's slot and committee index",
				"job name does not carry both the attestation's slot and committee index (jobs of different committees would collide): "+nd.String())
			// runtime: StartOfSlot(attestation slot) + aggregation delay
			rd := ds.D(args[3])
			okRt := rd.MentionsCall("StartOfSlot") && rd.MentionsField("attestationAggregationDelay") && rd.Any(func(x *core.VD) bool { return x.HasFieldSuffix("Data", "Slot") })
			r.Check(okRt, "C14.d", core.FnKey(f)+"|schedule-aggregate|time", p.Pos(ci.Pos()), "job time is StartOfSlot(attestation slot) + attestationAggregationDelay",
				"job time is not StartOfSlot(attestation slot) + attestationAggregationDelay: "+rd.String())
			// the captured duty
			for _, sl := range core.StructLits(f, "attestationaggregator.Duty") {
				info := func(field string, suffix ...string) {
					v := sl.Fields[field]
					if v == nil {
						r.Violate("C14.d", core.FnKey(f)+"|aggregator-duty|"+field, p.Pos(sl.Alloc.Pos()), "field "+field+" of the aggregation duty is not set")
						return
					}
					d := ds.D(v)
					r.Check(d.HasFieldSuffix(suffix...), "C14.d", core.FnKey(f)+"|aggregator-duty|"+field, p.Pos(sl.Stores[field].Pos()),
						field+" <- "+d.String(), field+" must come from info."+strings.Join(suffix, ".")+" but is "+d.String())
				}
				info("Slot", "Duty", "Slot")
				info("ValidatorIndex", "Duty", "ValidatorIndex")
				info("SlotSignature", "Signature")
				// all three from the same info value
				var roots []string
				for _, fld := range []string{"Slot", "ValidatorIndex", "SlotSignature"} {
					if v := sl.Fields[fld]; v != nil {
						d := ds.D(v)
						cur := d
						for cur.Kind == "field" {
							cur = cur.Args[0]
						}
						roots = append(roots, cur.String())
					}
				}
				same := len(roots) == 3 && roots[0] == roots[1] && roots[1] == roots[2]
				r.Check(same, "C14.d", core.FnKey(f)+"|aggregator-duty|same-info", p.Pos(sl.Alloc.Pos()), "all fields come from one subscription info", "fields come from different info values: "+strings.Join(roots, " / "))
				if same && len(roots) > 0 {
					// and that info is looked up by the attestation's own slot and committee index
					ok := strings.Contains(roots[0], "Data.Slot") && strings.Contains(roots[0], "Data.Index")
					r.Check(ok, "C14.d", core.FnKey(f)+"|aggregator-duty|info-lookup", p.Pos(sl.Alloc.Pos()), "info is looked up by the attestation's slot and committee index", "info is not looked up by the attestation's own slot and committee: "+roots[0])
				}
			}
		}
	}
	r.Floor("C14.d aggregation scheduling sites", nD, 1)

	// ---- (e): aggregator flag wiring ----
	nE := 0
	if f := p.Func(aggRel, "Service", "AggregatorsAndSignatures"); f != nil {
		core.EachInstr(f, func(in ssa.Instruction) {
			st, ok := in.(*ssa.Store)
			if !ok {
				return
			}
			ia, ok := st.Addr.(*ssa.IndexAddr)
			if !ok || !types.Identical(st.Val.Type().Underlying(), types.Typ[types.Bool]) {
				return
			}
			nE++
			coll, isIdx := core.RangeIndex(ia.Index)
			construct := core.FnKey(f) + "|aggregators[i]"
			if !isIdx {
				r.Violate("C14.e", construct+"|index", p.Pos(st.Pos()), "aggregator flag is not stored at the index of the signature loop: "+ds.D(ia.Index).String())
				return
			}
			cd := ds.D(coll)
			r.Check(cd.MentionsCall("SignSlotSelections"), "C14.e", construct+"|index", p.Pos(st.Pos()), "stored at the index of the loop over the slot-selection signatures", "index does not range over the signatures: "+cd.String())
			vd := ds.D(st.Val)
			// value: (… % modulo) == 0 — when the rule was moved into a helper with an error result, on the leaf that
			// can reach the store (the helper's failure exits return before the flag is stored)
			if leaves := core.FeasibleLeaves(f, st.Val, st); len(leaves) > 0 {
				for _, lf := range leaves {
					ld := ds.D(lf.V)
					if ld.Kind == "binop" {
						vd = ld
					}
				}
				if len(leaves) == 1 {
					vd = ds.D(leaves[0].V)
				}
			}
			okShape := vd.Kind == "binop" && vd.Name == "==" && vd.Args[0].Kind == "binop" && vd.Args[0].Name == "%"
			r.Check(okShape, "C14.e", construct+"|shape", p.Pos(st.Pos()), "flag is (hash % modulo) == 0", "flag is not of the form (hash % modulo) == 0: "+vd.String())
			if okShape {
				mod := vd.Args[0].Args[1]
				sameIdx := mod.Any(func(x *core.VD) bool {
					return x.Kind == "index" && x.Args[0].Kind == "param" && x.Args[1].Val == ia.Index
				})
				r.Check(sameIdx, "C14.e", construct+"|committee-size", p.Pos(st.Pos()), "modulo derives from committeeSizes[i] with the same i", "modulo does not use the committee size of the same index: "+mod.String())
				r.Check(mod.MentionsField("targetAggregatorsPerCommittee"), "C14.e", construct+"|target", p.Pos(st.Pos()), "modulo derives from TARGET_AGGREGATORS_PER_COMMITTEE", "modulo does not derive from the target-aggregators value: "+mod.String())
				clamp := false
				if phi, ok := mod.Val.(*ssa.Phi); ok {
					leaves := core.PhiLeaves(phi, in)
					var quot ssa.Value
					for _, lf := range leaves {
						if _, isC := lf.V.(*ssa.Const); !isC {
							quot = lf.V
						}
					}
					for _, lf := range leaves {
						if c, isC := lf.V.(*ssa.Const); isC && c.Value != nil && c.Value.ExactString() == "1" && quot != nil {
							// the constant 1 flows in only on the edge quotient == 0
							w := core.UnguardedLeaf(ds, f, nil, lf, func(c core.Cond) int {
								if c.Op == "" || c.X.Val != quot || c.Y.Kind != "const" || c.Y.Name != "0" {
									return -1
								}
								for s := 0; s < 2; s++ {
									if c.RelOnEdge(s) == "==" {
										return s
									}
								}
								return -1
							})
							clamp = w == nil
						}
					}
				}
				// the clamp written as a guarded division: modulo starts at 1 and becomes the quotient only where
				// numerator >= denominator
				if phi, ok := mod.Val.(*ssa.Phi); ok && !clamp {
					leaves := core.PhiLeaves(phi, in)
					hasOne, allGuarded, nQuot := false, true, 0
					for _, lf := range leaves {
						if core.IsIntConst(lf.V, 1) {
							hasOne = true
							continue
						}
						q, isQ := lf.V.(*ssa.BinOp)
						if !isQ || q.Op != token.QUO {
							allGuarded = false
							continue
						}
						nQuot++
						if w := core.UnguardedLeaf(ds, f, nil, lf, func(c core.Cond) int { return numeratorNotBelowDenominator(ds, c, q) }); w != nil {
							allGuarded = false
						}
					}
					clamp = hasOne && allGuarded && nQuot > 0
				}
				// the clamp written as max(quotient, 1)
				if mc, ok := mod.Val.(*ssa.Call); ok {
					if b, isB := mc.Call.Value.(*ssa.Builtin); isB && b.Name() == "max" && len(mc.Call.Args) == 2 {
						for k := 0; k < 2; k++ {
							if core.IsIntConst(mc.Call.Args[k], 1) {
								if q, isQ := mc.Call.Args[1-k].(*ssa.BinOp); isQ && q.Op == token.QUO {
									clamp = true
								}
							}
						}
					}
				}
				r.Check(clamp, "C14.e", construct+"|clamp", p.Pos(st.Pos()), "modulo is clamped to 1 when the quotient is 0", "the clamp of a zero modulo to 1 is missing (division by zero for small committees): "+mod.String())
			}
			// the hashed bytes are those of the signature at the same index
			hashed := false
			hashCalls := core.CallsNamed(f, "Write")
			// the one-shot form: sha256.Sum256(bytes)
			hashCalls = append(hashCalls, core.Calls(f, func(c *ssa.CallCommon) bool {
				callee := c.StaticCallee()
				return callee != nil && callee.Pkg != nil && strings.HasPrefix(callee.Pkg.Pkg.Path(), "crypto/") && strings.HasPrefix(callee.Name(), "Sum")
			})...)
			for _, wc := range hashCalls {
				for _, a := range wc.Common().Args {
					ad := ds.D(a)
					if ad.Any(func(x *core.VD) bool {
						if x.Kind == "index" && x.Args[1].Val == ia.Index && x.Args[0].MentionsCall("SignSlotSelections") {
							return true
						}
						return false
					}) {
						hashed = true
					}
				}
			}
			r.Check(hashed, "C14.e", construct+"|hash-input", p.Pos(st.Pos()), "the hash input is the signature at the same index", "the hashed bytes are not the i-th slot signature")
		})
	} else {
		r.Undecide("C14.anchor", aggRel+".AggregatorsAndSignatures", "", "anchor not found")
	}
	r.Floor("C14.e aggregator flag stores", nE, 1)

	// ---- (c): per-validator arrays indexed consistently ----
	runIndexSpaces(p, r, ds, "C14.c", p.FuncsIn(bcsRel), 6)

	// ---- (f): one info per committee, and it is an aggregator's whenever one of the validators is one ----
	nF := 0
	for _, f := range p.FuncsIn(bcsRel) {
		core.EachInstr(f, func(in ssa.Instruction) {
			mu, ok := in.(*ssa.MapUpdate)
			if !ok {
				return
			}
			if pt, isPtr := mu.Value.Type().(*types.Pointer); !isPtr || typeName(pt) != "beaconcommitteesubscriber.Subscription" {
				return
			}
			nF++
			construct := core.FnKey(f) + "|record"
			// the presence lookup with the same key on the same (slot) map
			keyD := ds.D(mu.Key).String()
			var lk *ssa.Lookup
			core.EachInstr(f, func(x ssa.Instruction) {
				if l, ok := x.(*ssa.Lookup); ok && l.CommaOk && ds.D(l.Index).String() == keyD && isSubscriptionPtr(l.Type().(*types.Tuple).At(0).Type()) {
					lk = l
				}
			})
			if lk == nil {
				r.Violate("C14.f", construct+"|presence-test", p.Pos(mu.Pos()), "the info of a committee is recorded without looking up what is already recorded for the same slot and committee (an aggregator's info could be overwritten by a non-aggregator's)")
				return
			}
			isAgg := func(c core.Cond) int {
				if c.B != nil && c.B.Kind == "field" && c.B.Name == "IsAggregator" && c.B.MentionsValue(lk) {
					if c.BoolOnEdge(0) {
						return 0
					}
					return 1
				}
				return -1
			}
			est := core.GuardEdges(ds, f, isAgg)
			// (f1) an iteration ends without recording only when an aggregator is already recorded
			w := core.PathQuery{Fn: f, From: lk, Target: func(x ssa.Instruction) bool { return x == ssa.Instruction(lk) },
				Avoid: func(x ssa.Instruction) bool { return x == ssa.Instruction(mu) },
				Edge: func(b *ssa.BasicBlock, succ int) bool {
					if s, ok := est[b]; ok && s == succ {
						return false
					}
					return true
				}}.Find()
			r.Check(w == nil, "C14.f", construct+"|skip-only-when-aggregator-recorded", p.Pos(mu.Pos()),
				"a validator's info is skipped only when the committee already has an aggregator recorded",
				"a validator's info can be skipped although no aggregator is recorded for its committee: a later validator of the committee that is a selected aggregator is dropped, and no aggregation job is set up", p.WitnessText(w)...)
			// (f2) a recorded aggregator is never overwritten
			bad := false
			for b, s := range est {
				tgt := b.Succs[s]
				if len(tgt.Instrs) == 0 {
					continue
				}
				first := tgt.Instrs[0]
				hit := first == ssa.Instruction(mu)
				if !hit {
					w2 := core.PathQuery{Fn: f, From: first, Target: func(x ssa.Instruction) bool { return x == ssa.Instruction(mu) },
						Avoid: func(x ssa.Instruction) bool { return x == ssa.Instruction(lk) }}.Find()
					hit = w2 != nil
				}
				if hit {
					bad = true
				}
			}
			r.Check(!bad && len(est) > 0, "C14.f", construct+"|aggregator-not-overwritten", p.Pos(mu.Pos()),
				"once an aggregator is recorded for the committee no other info replaces it",
				"the recorded info of a committee can be replaced although it is an aggregator's (or the recorded info's IsAggregator is never tested)")
		})
	}
	r.Floor("C14.f per-committee info stores", nF, 1)

	// ---- (g): stored subscription info stays until its epoch is over ----
	infoField := core.FieldID{Owner: ctrlRel + ".Service", Name: "subscriptionInfos"}
	nG := 0
	for _, f := range p.FuncsIn(ctrlRel) {
		if f.Name() == "New" {
			continue
		}
		for _, op := range core.MapOps(f) {
			if op.Field != infoField {
				continue
			}
			switch op.Kind {
			case "delete":
				nG++
				kd := ds.D(op.Key)
				ok := false
				if kd.Kind == "binop" && kd.Name == "-" && len(kd.Args) == 2 && kd.Args[1].Kind == "const" && kd.Args[1].Name != "0" &&
					(kd.Args[0].MentionsCall("SlotToEpoch") || kd.Args[0].MentionsCall("CurrentEpoch")) {
					ok = true
				}
				r.Check(ok, "C14.g", core.FnKey(f)+"|delete", p.Pos(op.Instr.Pos()), "only an epoch before the chain's present one is dropped: key = "+kd.String(),
					"subscription info is deleted for key "+kd.String()+", which is not an epoch before the present one: attestations of that epoch then find no info and set up no aggregation")
			case "insert":
				nG++
				vd := ds.D(op.Val)
				okv := vd.MentionsCall("Subscribe")
				r.Check(okv, "C14.g", core.FnKey(f)+"|insert", p.Pos(op.Instr.Pos()), "stored info is the result of Subscribe: "+vd.String(), "stored info does not come from Subscribe: "+vd.String())
				if call := findCallIn(vd, "Subscribe"); call != nil {
					errV := core.ExtractOf(call, 1)
					if errV != nil {
						w := core.Unguarded(ds, f, call.(ssa.Instruction), func(x ssa.Instruction) bool { return x == op.Instr }, func(c core.Cond) int { return core.ErrNilSucc(c, errV) })
						r.Check(w == nil, "C14.g", core.FnKey(f)+"|insert|on-success", p.Pos(op.Instr.Pos()), "info is replaced only when Subscribe succeeded", "info is replaced although Subscribe failed", p.WitnessText(w)...)
					}
				}
			}
		}
	}
	r.Floor("C14.g subscription info writers", nG, 2)

	// ---- (h): accounts of an epoch are subscribed for that epoch ----
	// subscribeToBeaconCommittees(ctx, E, accounts): the accounts come from the lookup for the same E (a refresh
	// that re-subscribes another epoch leaves the changed duties of E without subscriptions and its stored info stale)
	nH := checkEpochPairing(p, r, ds, "C14.h", []string{"subscribeToBeaconCommittees"},
		"beacon committee subscriptions are requested for epoch %s with the accounts obtained for epoch %s")
	r.Floor("C14.h subscription calls with locally obtained accounts", nH, 3)

	// ---- (i): the selection hash is over one signature ----
	// a hasher that lives across iterations accumulates every earlier signature
	if f := p.Func(aggRel, "Service", "AggregatorsAndSignatures"); f != nil {
		n := 0
		core.EachInstr(f, func(in ssa.Instruction) {
			c, ok := in.(*ssa.Call)
			if !ok {
				return
			}
			callee := c.Call.StaticCallee()
			if callee != nil && callee.Pkg != nil && strings.HasPrefix(callee.Pkg.Pkg.Path(), "crypto/") && strings.HasPrefix(callee.Name(), "Sum") {
				n++
				r.Hold("C14.e", core.FnKey(f)+"|hasher-per-signature", p.Pos(c.Pos()), "the one-shot hash function covers exactly the bytes it is given")
				return
			}
			if callee == nil || callee.Pkg == nil || !strings.HasPrefix(callee.Pkg.Pkg.Path(), "crypto/") || callee.Name() != "New" {
				return
			}
			n++
			// is the hasher written inside a loop that does not contain its creation?
			bad := false
			if c.Referrers() != nil {
				for _, ref := range *c.Referrers() {
					use, ok := ref.(ssa.CallInstruction)
					if !ok || !use.Common().IsInvoke() || use.Common().Method.Name() != "Write" {
						continue
					}
					if core.InLoop(use.(ssa.Instruction)) && !sameLoop(c, use.(ssa.Instruction)) {
						// a Reset in the loop makes it a fresh hasher again
						reset := false
						for _, r2 := range *c.Referrers() {
							if u2, ok := r2.(ssa.CallInstruction); ok && u2.Common().IsInvoke() && u2.Common().Method.Name() == "Reset" && core.InLoop(u2.(ssa.Instruction)) {
								reset = true
							}
						}
						if !reset {
							bad = true
						}
					}
				}
			}
			r.Check(!bad, "C14.e", core.FnKey(f)+"|hasher-per-signature", p.Pos(c.Pos()), "a fresh hasher is used for every signature", "the hasher is created outside the loop over the signatures and never reset: from the second validator on the hash covers all earlier signatures too, so the is_aggregator flags no longer follow the selection rule")
		})
		r.Floor("C14.e hashers in the selection function", n, 1)
	}
}

// sameLoop: b is reachable from a and a from b (both lie on one cycle), i.e. a is created in every iteration of b's loop.
func sameLoop(a, b ssa.Instruction) bool {
	return reachableAfter(a, b) && reachableAfter(b, a)
}

// findCallIn returns the call value with the given method name mentioned in a description.
func findCallIn(d *core.VD, name string) ssa.Value {
	var out ssa.Value
	d.Walk(func(x *core.VD) bool {
		if c, ok := x.Val.(*ssa.Call); ok && core.MethodName(c.Common()) == name {
			out = c
		}
		return true
	})
	return out
}

// jobFuncOf resolves the function value passed as a job.
func jobFuncOf(v ssa.Value) *ssa.Function {
	switch x := v.(type) {
	case *ssa.MakeClosure:
		f, _ := x.Fn.(*ssa.Function)
		return f
	case *ssa.Function:
		return x
	case *ssa.ChangeType:
		return jobFuncOf(x.X)
	}
	return nil
}

func checkSubscriptionLit(p *core.Prog, r *core.Report, ds *core.Describer, f *ssa.Function, sl *core.StructLit) {
	base := core.FnKey(f) + "|subscription"
	get := func(n string) ssa.Value { return sl.Fields[n] }
	pos := p.Pos(sl.Alloc.Pos())
	var outerRange, innerRange *ssa.Range
	if v := get("Slot"); v != nil {
		rg, which, ok := core.MapRange(v)
		r.Check(ok && which == 1, "C14.b", base+"|Slot", pos, "Slot is the key of the slot loop", "Slot is not the key of the loop over slots: "+ds.D(v).String())
		outerRange = rg
	} else {
		r.Violate("C14.b", base+"|Slot", pos, "Slot is not set")
	}
	if v := get("CommitteeIndex"); v != nil {
		rg, which, ok := core.MapRange(v)
		r.Check(ok && which == 1 && rg != outerRange, "C14.b", base+"|CommitteeIndex", pos, "CommitteeIndex is the key of the committee loop", "CommitteeIndex is not the key of the inner loop over committees: "+ds.D(v).String())
		innerRange = rg
		if ok && outerRange != nil {
			// the inner loop ranges over the value of the outer loop
			xr, w, ok2 := core.MapRange(rg.X)
			r.Check(ok2 && xr == outerRange && w == 2, "C14.b", base+"|nesting", pos, "committee loop ranges over the slot's entry", "the committee loop does not range over the entry of the slot being iterated")
		}
	} else {
		r.Violate("C14.b", base+"|CommitteeIndex", pos, "CommitteeIndex is not set")
	}
	fromInfo := func(field string, suffix ...string) {
		v := get(field)
		if v == nil {
			r.Violate("C14.b", base+"|"+field, pos, field+" is not set")
			return
		}
		d := ds.D(v)
		ok := d.HasFieldSuffix(suffix...)
		if ok {
			root, _ := d.FieldPath()
			rg, which, isR := core.MapRange(root.Val)
			ok = isR && which == 2 && rg == innerRange
		}
		r.Check(ok, "C14.b", base+"|"+field, pos, field+" <- info."+strings.Join(suffix, "."), field+" must be info."+strings.Join(suffix, ".")+" of the element being iterated, is "+d.String())
	}
	fromInfo("ValidatorIndex", "Duty", "ValidatorIndex")
	fromInfo("CommitteesAtSlot", "Duty", "CommitteesAtSlot")
	fromInfo("IsAggregator", "IsAggregator")
	_ = fmt.Sprint
}

func isSubscriptionPtr(t types.Type) bool {
	pt, ok := t.(*types.Pointer)
	return ok && typeName(pt) == "beaconcommitteesubscriber.Subscription"
}

// checkEpochPairing: calls f(ctx, E, X, ...) of the controller's schedulers/subscribers whose X was obtained in the
// same function from accountsAndIndicesForEpoch(ctx, E') (or an accounts provider's ...ForEpoch(ctx, E', ...)) have
// E' == E: what is set up for an epoch is computed from that epoch's validators. Returns the number of calls decided.
func checkEpochPairing(p *core.Prog, r *core.Report, ds *core.Describer, rule string, callees []string, badFmt string) int {
	n := 0
	seen := map[string]int{}
	for _, f := range p.FuncsIn(ctrlRel) {
		for _, ci := range core.Calls(f, func(c *ssa.CallCommon) bool {
			callee := c.StaticCallee()
			if callee == nil {
				return false
			}
			for _, nm := range callees {
				if callee.Name() == nm {
					return true
				}
			}
			return false
		}) {
			args := ci.Common().Args
			if len(args) < 4 {
				continue
			}
			// (recv, ctx, epoch, data, ...)
			ed := ds.D(args[2])
			var src *core.VD
			for _, a := range args[3:] {
				ds.D(a).Walk(func(x *core.VD) bool {
					if x.Kind == "call" && (strings.HasSuffix(x.Name, "accountsAndIndicesForEpoch") || strings.Contains(x.Name, "AccountsForEpoch")) && len(x.Args) >= 1 {
						src = x.Args[len(x.Args)-1]
						if strings.Contains(x.Name, "ByIndex") && len(x.Args) >= 2 {
							src = x.Args[len(x.Args)-2]
						}
					}
					return true
				})
			}
			if src == nil {
				continue // handed in by the caller: decided at that call site
			}
			n++
			key := core.FnKey(f) + "|" + ci.Common().StaticCallee().Name() + "|epoch-of-its-validators"
			seen[key]++
			if seen[key] > 1 {
				key = fmt.Sprintf("%s#%d", key, seen[key])
			}
			r.Check(src.String() == ed.String(), rule, key, p.Pos(ci.Pos()), "set up for the epoch its validators were obtained for: "+ed.String(), fmt.Sprintf(badFmt, ed, src))
		}
	}
	return n
}

// skipCond is a branch, inside the innermost loop around a target instruction, that decides whether the target
// is reached in the current iteration.
type skipCond struct {
	If   *ssa.If
	Kind string // "", "presence flag", "presence flag of a local set", "aggregator flag", "nil test", "emptiness test", "slot before current slot", "slot-vs-current:<rel>"
}

// skipConditions classifies the deciding branches of the loop iteration around target.
func skipConditions(ds *core.Describer, f *ssa.Function, target ssa.Instruction) []skipCond {
	sb := target.Block()
	var header *ssa.BasicBlock
	for _, h := range f.Blocks {
		if !h.Dominates(sb) {
			continue
		}
		back := false
		for _, pr := range h.Preds {
			if h.Dominates(pr) {
				back = true
			}
		}
		if back && (header == nil || header.Dominates(h)) {
			header = h
		}
	}
	if header == nil {
		return nil
	}
	reach := map[*ssa.BasicBlock]bool{sb: true}
	for changed := true; changed; {
		changed = false
		for _, b := range f.Blocks {
			if reach[b] || b == header || !header.Dominates(b) {
				continue
			}
			for _, s := range b.Succs {
				if reach[s] && s != header {
					reach[b] = true
					changed = true
				}
			}
		}
	}
	var out []skipCond
	for _, b := range f.Blocks {
		if !header.Dominates(b) || b == header || len(b.Instrs) == 0 {
			continue
		}
		ifi, ok := b.Instrs[len(b.Instrs)-1].(*ssa.If)
		if !ok || !reach[b] {
			continue
		}
		r0, r1 := reach[b.Succs[0]] && b.Succs[0] != header, reach[b.Succs[1]] && b.Succs[1] != header
		if !b.Dominates(sb) || r0 == r1 {
			continue
		}
		skipEdge := 0
		if r0 {
			skipEdge = 1
		}
		// a flag a helper returned (merged from constants): the tests that decide it are judged instead
		if ups := constFlagDeciders(ifi, skipEdge); ups != nil {
			for _, up := range ups {
				out = append(out, skipCond{up.ifi, classifySkip(ds, up.ifi, up.edge)})
			}
			continue
		}
		out = append(out, skipCond{ifi, classifySkip(ds, ifi, skipEdge)})
	}
	return out
}

type upstreamIf struct {
	ifi  *ssa.If
	edge int
}

// constFlagDeciders: the branch tests (the negation of) a phi whose edges are all boolean constants. Returns, for every
// edge whose constant sends control along skipEdge, the nearest branch above that edge's block together with the
// successor that leads to it; nil when the condition is not such a flag.
func constFlagDeciders(ifi *ssa.If, skipEdge int) []upstreamIf {
	cond := ifi.Cond
	neg := false
	if u, ok := cond.(*ssa.UnOp); ok && u.Op == token.NOT {
		cond, neg = u.X, true
	}
	phi, ok := cond.(*ssa.Phi)
	if !ok {
		return nil
	}
	var out []upstreamIf
	for k, e := range phi.Edges {
		c, ok := e.(*ssa.Const)
		if !ok || c.Value == nil || c.Value.Kind() != constant.Bool {
			return nil
		}
		val := constant.BoolVal(c.Value) != neg // the branch condition's value
		takes := 1
		if val {
			takes = 0
		}
		if takes != skipEdge {
			continue
		}
		b := phi.Block().Preds[k]
		for depth := 0; depth < 6; depth++ {
			if len(b.Preds) != 1 {
				break
			}
			pr := b.Preds[0]
			if up, ok := pr.Instrs[len(pr.Instrs)-1].(*ssa.If); ok {
				edge := 0
				if pr.Succs[1] == b {
					edge = 1
				}
				out = append(out, upstreamIf{up, edge})
				break
			}
			b = pr
		}
	}
	if out == nil {
		out = []upstreamIf{}
	}
	return out
}

func classifySkip(ds *core.Describer, ifi *ssa.If, skipEdge int) string {
	{
		c := core.DecodeCond(ds, ifi)
		kind := ""
		switch {
		case c.B != nil && c.B.Val != nil:
			if ex, ok := c.B.Val.(*ssa.Extract); ok {
				switch t := ex.Tuple.(type) {
				case *ssa.Lookup:
					kind = "presence flag"
					if _, local := t.X.(*ssa.MakeMap); local {
						kind = "presence flag of a local set"
					}
				case *ssa.TypeAssert:
					kind = "presence flag"
				}
			}
			if c.B.Kind == "field" && c.B.Name == "IsAggregator" {
				kind = "aggregator flag"
			}
		case c.Op != "":
			isNil := func(d *core.VD) bool { return d.Kind == "const" && d.Name == "nil" }
			isConst := func(d *core.VD) bool { return d.Kind == "const" }
			switch {
			case isNil(c.X) || isNil(c.Y):
				kind = "nil test"
			case (c.X.Kind == "len" && isConst(c.Y)) || (c.Y.Kind == "len" && isConst(c.X)):
				kind = "emptiness test"
			default:
				slotSide := func(d *core.VD) bool { return d.Kind == "field" && d.Name == "Slot" || d.IsCall("Duty.Slot") }
				curSide := func(d *core.VD) bool { return d.MentionsCall("CurrentSlot") }
				rel := c.RelOnEdge(skipEdge)
				if slotSide(c.Y) && curSide(c.X) {
					rel = core.FlipRel(rel)
				} else if !(slotSide(c.X) && curSide(c.Y)) {
					break
				}
				if rel == "<" {
					kind = "slot before current slot"
				} else {
					kind = "slot-vs-current:" + rel
				}
			}
		}
		return kind
	}
}

// checkSkipConditions: in the loop around the scheduling call, every branch that decides whether the call
// is reached in this iteration is of one of the kinds the property allows: a presence flag of a lookup, a
// nil/err test, an emptiness test, the IsAggregator flag, or "the attestation's slot is before the current
// slot" (strictly). Anything else (for instance wall-clock comparisons finer than the slot) withholds the
// job from a selected aggregator.
func checkSkipConditions(p *core.Prog, r *core.Report, ds *core.Describer, f *ssa.Function, sched ssa.Instruction) {
	n := 0
	for _, sc := range skipConditions(ds, f, sched) {
		n++
		key := fmt.Sprintf("%s|skip-condition#%d", core.FnKey(f), n)
		if strings.HasPrefix(sc.Kind, "slot-vs-current:") {
			r.Violate("C14.d", key, p.Pos(core.IfPos(sc.If)), "the aggregation job is withheld when the attestation's slot is '"+strings.TrimPrefix(sc.Kind, "slot-vs-current:")+"' the current slot, expected only '<' (past slots)")
			continue
		}
		r.Check(sc.Kind != "", "C14.d", key, p.Pos(core.IfPos(sc.If)), "the job can be withheld here only on a "+sc.Kind,
			"an attestation's aggregation job can be withheld on a condition that is none of: lookup presence, nil/error, emptiness, IsAggregator, slot < current slot (e.g. a wall-clock comparison inside the slot): a selected aggregator of the slot gets no aggregation job")
	}
	r.Floor("C14.d conditions deciding whether the aggregation job is set up", n, 4)
}

// checkSpecConstantNames: a Service field that is named after a chain-specification constant is filled, in New, from
// that constant. Returns the number of fields filled from chain constants.
func checkSpecConstantNames(p *core.Prog, r *core.Report, rule string) int {
	nSpec := 0
	var pairs []string
	for _, f := range p.SrcFuncs() {
		if f.Name() != "New" || f.Parent() != nil {
			continue
		}
		for _, sl := range core.StructLits(f, "Service") {
			for fname, v := range sl.Fields {
				key, ok := specKeyOf(v, 0)
				if !ok {
					continue
				}
				nSpec++
				pairs = append(pairs, core.RelPkg(f.Pkg.Pkg.Path())+": "+fname+" <- "+key)
				// "SyncSubcommittee" is shortened to "SyncCommittee" in one field name: compare without the "sub"
				nf, nk := strings.ReplaceAll(normName(fname), "sub", ""), strings.ReplaceAll(normName(key), "sub", "")
				// DOMAIN_SYNC_COMMITTEE <-> syncCommitteeDomainType: the words "domain" and "type" carry no information
				for _, wd := range []string{"domain", "type"} {
					nf, nk = strings.ReplaceAll(nf, wd, ""), strings.ReplaceAll(nk, wd, "")
				}
				// judged only where the field is named after a constant: its name ends like a constant's name
				named := strings.HasPrefix(nf, "targetaggregatorsper") || strings.HasPrefix(nf, "synccommittee") || strings.HasPrefix(nf, "slotsper") || strings.HasPrefix(nf, "epochsper") || strings.HasSuffix(nf, "weight") || strings.HasSuffix(nf, "denominator")
				if !named {
					continue
				}
				r.Check(nf == nk, rule, fmt.Sprintf("%s|%s|read-under-own-name", core.RelPkg(f.Pkg.Pkg.Path()), fname), p.Pos(f.Pos()), fname+" is read from "+key,
					"field "+fname+" is filled from the chain constant "+key+", not from the constant it is named after: on a chain where the two differ the aggregator selection (committee size / target) is wrong, so validators are marked and scheduled as aggregators contrary to the specification's rule")
			}
		}
	}
	sort.Strings(pairs)
	r.Tables["spec-constants"] = pairs
	return nSpec
}

// constFlagDecidersAny: the branch tests (the negation of) a phi of boolean constants: the nearest branches above the
// edges that carry a constant, whichever way they send control; nil when the condition is not such a flag.
func constFlagDecidersAny(ifi *ssa.If) []*ssa.If {
	var out []*ssa.If
	seen := map[*ssa.If]bool{}
	found := false
	for edge := 0; edge < 2; edge++ {
		ups := constFlagDeciders(ifi, edge)
		if ups == nil {
			return nil
		}
		found = true
		for _, u := range ups {
			if !seen[u.ifi] {
				seen[u.ifi] = true
				out = append(out, u.ifi)
			}
		}
	}
	if !found {
		return nil
	}
	if out == nil {
		out = []*ssa.If{}
	}
	return out
}

// alwaysNilResult: v is result i of a call of a local function literal (or a function of the package) every return of
// which has nil for that result — `return failed(err)` with `failed := func(err error) ([]T, error) { …; return nil, err }`.
func alwaysNilResult(v ssa.Value) bool {
	ex, ok := v.(*ssa.Extract)
	if !ok {
		return false
	}
	call, ok := ex.Tuple.(*ssa.Call)
	if !ok {
		return false
	}
	callee := call.Call.StaticCallee()
	if callee == nil {
		callee = localClosureOf(call.Call.Value)
	}
	if callee == nil || len(callee.Blocks) == 0 {
		return false
	}
	for _, ret := range core.ReturnsOf(callee) {
		if ret.Block() == callee.Recover {
			continue
		}
		if ex.Index >= len(ret.Results) {
			return false
		}
		for _, lf := range core.PhiLeaves(core.Unspill(ret.Results[ex.Index]), ret) {
			if !core.IsNilConst(lf.V) {
				return false
			}
		}
	}
	return true
}
