package rules

import (
	"fmt"
	"go/constant"
	"go/token"
	"go/types"
	"sort"
	"strings"

	"golang.org/x/tools/go/ssa"

	"vouchcheck/internal/core"
)

func init() {
	register(&Pack{
		ID:  "C16",
		Run: runC16,
		Expl: "'No input panics' is undecidable in general; decided, over ALL production packages, is a fixed set of crash-shaped constructs, each a definite path to a runtime panic for a value the client libraries' decoders (or an operator/config server) can deliver: " +
			"(a) use-after-failed-call: the pointer/interface result of a call is dereferenced on the path where the call's error is non-nil; (b) maybe-nil merged pointer: a pointer that is nil on one incoming edge is dereferenced without a non-nil test; " +
			"(c) a slice-to-array conversion whose operand is not known to have at least the array's length; (d) elements of []*T / map[K]*T collections filled by encoding/json are dereferenced without a nil test, unless the owner's UnmarshalJSON rejects nil elements; " +
			"(e) a single-value type assertion on event data is made only in a handler registered for exactly the topic of the asserted type (or on a value whose callers all pass that type); " +
			"(f) the panicking converters util.SlotToInt64/EpochToInt64 receive only duty/request/clock values, never a value read from a beacon-node response; (g) optional configuration values are dereferenced only after a test of the same field (C10.a); " +
			"(h) math/rand.Intn-style calls receive an argument known to be positive. " +
			"Input-space assumption: go-eth2-client v0.21.11 and go-builder-client v0.5.1 decoders reject missing source/target, block message/body and default missing numeric values to 0 (read, not analysed). " +
			"Added with the third seeding round: (k) what is wrapped into the ExecutionConfigurator interface is an object or a nil-tested pointer; (l) an insert into outer[k][...] is preceded on every path by the creation of outer[k] or a presence test on a map filled together with it. Added with the fourth seeding round: (m) results of program functions that can be nil without an error are nil-tested; (n) indices taken from JSON-decoded locals are range-tested; (o) bids remembered between rounds are verified ones (shared with C09.a). Added with the fifth seeding round: (q) a byte collection is addressed with a position only behind a test against the length of that same collection. Added with the sixth seeding round and the false-alarm regression: (x) no dereference of a call's result on a path that continues after its error was found non-nil; (d, tightened) as C12.i. NOT decided: arithmetic faults (division by a zero spec value, huge allocations), value-dependent index-out-of-range, panics inside libraries.",
		Technique:   "crash-shape rules over SSA of every production function: error-edge path queries (use-after-failed-call), maybe-nil phi analysis, per-leaf length provenance of slice-to-array conversions, nil-guard queries on decoded pointer collections with unmarshaler validation summaries, registration/assertion table agreement, argument provenance of panicking helpers",
		Rule:        "one obligation per crash-shaped site found (a-d,f,h), per type assertion on event data (e); the sweep covers every production function",
		Assumptions: []string{"decoder contracts of go-eth2-client v0.21.11 / go-builder-client v0.5.1 as read (non-nil Data on nil error; non-nil Source/Target/Message/Body)"},
	})
}

// topic of an event type
var eventTopics = map[string]string{
	"HeadEvent":                 "head",
	"BlockEvent":                "block",
	"ChainReorgEvent":           "chain_reorg",
	"FinalizedCheckpointEvent":  "finalized_checkpoint",
	"AttestationEvent":          "attestation",
	"VoluntaryExitEvent":        "voluntary_exit",
	"ContributionAndProofEvent": "contribution_and_proof",
	"PayloadAttributesEvent":    "payload_attributes",
	"BlobSidecarEvent":          "blob_sidecar",
	"ProposerSlashingEvent":     "proposer_slashing",
	"AttesterSlashingEvent":     "attester_slashing",
	"BLSToExecutionChangeEvent": "bls_to_execution_change",
}

func runC16(p *core.Prog, r *core.Report, tier string) {
	ds := core.NewDescriber()
	fns := p.SrcFuncs()
	r.Count("functions swept", len(fns))

	// ---- (a) use after failed call ----
	nA := 0
	calls := 0
	for _, f := range fns {
		core.EachInstr(f, func(in ssa.Instruction) {
			if c, ok := in.(*ssa.Call); ok {
				sig := c.Call.Signature()
				if n := sig.Results().Len(); n >= 2 && core.IsErrorType(sig.Results().At(n-1).Type()) {
					calls++
				}
			}
		})
		for _, u := range core.UsesAfterFailedCall(ds, f) {
			nA++
			r.Violate("C16.a", core.FnKey(f)+"|use-after-failed-call|"+core.CalleeName(u.Call.Common()), p.Pos(u.Use.Pos()), "the result of "+core.CalleeName(u.Call.Common())+" is dereferenced on the path where the call failed (nil: runtime panic)", p.WitnessText(u.Witness)...)
		}
	}
	r.Count("calls returning (T, error)", calls)
	r.Floor("C16.a calls returning (T, error) examined", calls, 400)
	if nA == 0 {
		r.Hold("C16.a", "no-use-after-failed-call", "", fmt.Sprintf("%d calls returning (T, error): no result is used on its failure edge", calls))
	}

	// ---- (b) maybe-nil merged pointers ----
	nB := 0
	for _, f := range fns {
		for _, nd := range core.MaybeNilDerefs(ds, f) {
			name := "?"
			if phi, ok := nd.Value.(*ssa.Phi); ok {
				name = phi.Comment
			}
			if exemptNilDeref(f, name) {
				continue
			}
			nB++
			r.Violate("C16.b", core.FnKey(f)+"|nil-deref|"+name, p.Pos(nd.Use.Pos()), "dereference of "+name+", a pointer that "+nd.Why, p.WitnessText(nd.Witness)...)
		}
	}
	if nB == 0 {
		r.Hold("C16.b", "no-maybe-nil-deref", "", "no merged pointer with a nil edge is dereferenced unguarded")
	}

	// ---- (c) slice-to-array conversions ----
	nC := 0
	for _, f := range fns {
		core.EachInstr(f, func(in ssa.Instruction) {
			s2a, ok := in.(*ssa.SliceToArrayPointer)
			if !ok {
				return
			}
			nC++
			n := s2a.Type().(*types.Pointer).Elem().Underlying().(*types.Array).Len()
			construct := fmt.Sprintf("%s|slice-to-array[%d]|%s", core.FnKey(f), n, core.SourceName(s2a.X))
			bad := ""
			var wit []ssa.Instruction
			for _, lf := range leavesOneLevel(s2a.X, in) {
				if ok, why := sliceLenAtLeast(ds, f, lf, n, 0); !ok {
					bad = why
					wit = []ssa.Instruction{lf.At}
				}
			}
			r.Check(bad == "", "C16.c", construct, p.Pos(s2a.Pos()), fmt.Sprintf("the converted slice has at least %d elements on every path", n),
				fmt.Sprintf("slice converted to [%d]byte-style array may be shorter than %d (conversion panics): %s", n, n, bad), p.WitnessText(wit)...)
		})
	}
	r.Count("slice-to-array conversions", nC)

	// ---- (d) decoded pointer collections ----
	nD := checkDecodedCollections(p, r, ds, "C16.d", fns, func(rel string) bool { return strings.HasPrefix(rel, "services/blockrelay") || rel == mnRel })
	r.Count("decoded-collection element dereferences", nD)
	r.Floor("C16.d decoded-collection element dereferences", nD, 6)

	// ---- (e) type assertions on event data ----
	handlers := map[*ssa.Function][]string{}
	for _, f := range fns {
		core.EachInstr(f, func(in ssa.Instruction) {
			ci, ok := in.(ssa.CallInstruction)
			if !ok || core.MethodName(ci.Common()) != "Events" || len(ci.Common().Args) < 3 {
				return
			}
			a := ci.Common().Args
			h := funcValueOf(a[len(a)-1])
			if h == nil {
				return
			}
			td := ds.D(a[len(a)-2])
			var topics []string
			td.Walk(func(x *core.VD) bool {
				if s, ok := constString(x.Val); ok {
					topics = append(topics, s)
				}
				return true
			})
			handlers[h] = append(handlers[h], topics...)
		})
	}
	nE := 0
	for _, f := range fns {
		core.EachInstr(f, func(in ssa.Instruction) {
			ta, ok := in.(*ssa.TypeAssert)
			if !ok || ta.CommaOk {
				return
			}
			xd := ds.D(ta.X)
			isEventData := xd.HasFieldSuffix("Data") && strings.HasSuffix(typeOfRoot(xd), "v1.Event")
			if !isEventData {
				return
			}
			nE++
			tn := typeName(ta.AssertedType)
			tn = tn[strings.LastIndex(tn, ".")+1:]
			want := eventTopics[tn]
			topics := handlers[f]
			construct := core.FnKey(f) + "|assert|" + tn
			ok2 := want != "" && len(topics) > 0
			for _, t := range topics {
				if t != want {
					ok2 = false
				}
			}
			r.Check(ok2, "C16.e", construct, p.Pos(ta.Pos()), fmt.Sprintf("handler registered for %v only; asserts %s", topics, tn),
				fmt.Sprintf("event data is asserted to be %s without a check, but the handler is registered for topics %v (expected exactly [%s]): another event type panics", tn, topics, want))
		})
	}
	r.Count("unchecked assertions on event data", nE)
	r.Floor("C16.e unchecked assertions on event data", nE, 4)

	// ---- (f) panicking converters ----
	nF := 0
	for _, f := range fns {
		for _, ci := range core.CallsNamed(f, "SlotToInt64", "EpochToInt64") {
			if ci.Common().StaticCallee() == nil || core.RelPkg(ci.Common().StaticCallee().Pkg.Pkg.Path()) != "util" {
				continue
			}
			nF++
			d := ds.D(ci.Common().Args[0])
			external := d.Any(func(x *core.VD) bool {
				if x.Kind != "call" {
					return false
				}
				if strings.Contains(x.Name, "iface:github.com/attestantio/go-eth2-client.") || strings.Contains(x.Name, "BlockRootToSlot") {
					return true
				}
				return false
			})
			// a field of a locally held copy of node data (not a duty/opts/parameter)
			root := d
			for root.Kind == "field" {
				root = root.Args[0]
			}
			if d.Kind == "field" && root.Kind == "alloc" {
				external = true
			}
			r.Check(!external, "C16.f", fmt.Sprintf("%s|%s|%s", core.FnKey(f), core.MethodName(ci.Common()), d.String()), p.Pos(ci.Pos()), "argument is a duty/request/clock value: "+d.String(),
				"the panicking converter receives a value read from a beacon-node response ("+d.String()+"): a node reporting a slot/epoch >= 2^63 crashes the process")
		}
	}
	r.Floor("C16.f panicking-converter call sites", nF, 20)

	// ---- (g) optional configuration values (C10.a) ----
	for _, rel := range cfgRels {
		for _, f := range p.FuncsIn(rel) {
			core.EachInstr(f, func(in ssa.Instruction) {
				u, ok := in.(*ssa.UnOp)
				if !ok || u.Op.String() != "*" {
					return
				}
				inner, ok := u.X.(*ssa.UnOp)
				if !ok {
					return
				}
				fa, ok := inner.X.(*ssa.FieldAddr)
				if !ok || !strings.Contains(core.PkgOfType(fa.X.Type()), "vouch/services/blockrelay") {
					return
				}
				pt, ok := inner.Type().Underlying().(*types.Pointer)
				if !ok || strings.Contains(core.PkgOfType(pt.Elem()), "vouch/services/blockrelay") {
					return
				}
				d := ds.D(inner)
				w := core.Unguarded(ds, f, nil, func(x ssa.Instruction) bool { return x == in }, core.NonNilGuard(ds, inner))
				r.Check(w == nil, "C16.g", fmt.Sprintf("%s|deref|%s", core.FnKey(f), d.String()), p.Pos(u.Pos()), "optional value tested before use", "*"+d.String()+" is dereferenced without a non-nil test of that field", p.WitnessText(w)...)
			})
		}
	}

	// ---- (h) rand.Intn(n) needs n > 0 ----
	nH := 0
	for _, f := range fns {
		for _, ci := range core.CallsNamed(f, "Intn", "Int63n", "Int31n") {
			c := ci.Common().StaticCallee()
			if c == nil || c.Pkg == nil || !strings.HasPrefix(c.Pkg.Pkg.Path(), "math/rand") {
				continue
			}
			nH++
			arg := ci.Common().Args[len(ci.Common().Args)-1]
			construct := core.FnKey(f) + "|" + c.Name()
			if cv, ok := arg.(*ssa.Const); ok && cv.Value != nil && constant.Sign(cv.Value) > 0 {
				r.Hold("C16.h", construct, p.Pos(ci.Pos()), "constant positive bound")
				continue
			}
			ad := ds.D(arg)
			w := core.Unguarded(ds, f, nil, func(x ssa.Instruction) bool { return x == ci.(ssa.Instruction) }, func(cd core.Cond) int {
				if cd.Op == "" {
					return -1
				}
				var o, k *core.VD
				flip := false
				if cd.Y.Kind == "const" {
					o, k = cd.X, cd.Y
				} else if cd.X.Kind == "const" {
					o, k, flip = cd.Y, cd.X, true
				} else {
					return -1
				}
				if o.String() != ad.String() || k.Name != "0" {
					return -1
				}
				for s := 0; s < 2; s++ {
					rel := cd.RelOnEdge(s)
					if flip {
						rel = core.FlipRel(rel)
					}
					if rel == ">" || rel == "!=" {
						return s
					}
				}
				return -1
			})
			r.Check(w == nil, "C16.h", construct, p.Pos(ci.Pos()), "the bound is tested positive before the call", "rand."+c.Name()+"("+ad.String()+") can be called with a zero bound (panics), e.g. for a source that yields no usable entries", p.WitnessText(w)...)
		}
	}
	r.Count("rand bound call sites", nH)

	// ---- (i) only successful results are remembered ----
	// a value obtained from a call that also returned an error is stored into a long-lived map (package variable or
	// struct field) only on the edge where the error is nil: a nil result cached after a failure is handed out as a
	// success by every later lookup and dereferenced by its users
	nI := 0
	for _, f := range fns {
		core.EachInstr(f, func(in ssa.Instruction) {
			mu, ok := in.(*ssa.MapUpdate)
			if !ok {
				return
			}
			longLived := false
			switch m := mu.Map.(type) {
			case *ssa.UnOp:
				if _, isG := m.X.(*ssa.Global); isG {
					longLived = true
				}
				if _, ok := core.FieldOfValue(m); ok {
					longLived = true
				}
			}
			if !longLived {
				return
			}
			for _, lf := range core.PhiLeaves(mu.Value, mu) {
				ex, ok := lf.V.(*ssa.Extract)
				if !ok || ex.Index != 0 {
					continue
				}
				call, ok := ex.Tuple.(*ssa.Call)
				if !ok {
					continue
				}
				res := call.Call.Signature().Results()
				if res.Len() < 2 || !core.IsErrorType(res.At(res.Len()-1).Type()) {
					continue
				}
				errV := core.ExtractOf(call, res.Len()-1)
				if errV == nil {
					continue
				}
				nI++
				w := core.Unguarded(ds, f, call, func(x ssa.Instruction) bool { return x == in }, func(c core.Cond) int { return core.ErrNilSucc(c, errV) })
				r.Check(w == nil, "C16.i", fmt.Sprintf("%s|remembers-only-success|%s", core.FnKey(f), core.CalleeName(call.Common())), p.Pos(mu.Pos()), "the result is remembered only when the call succeeded",
					"the result of "+core.CalleeName(call.Common())+" is stored in a long-lived map on a path where its error was not tested nil: after a failure the (nil) result is remembered and returned as a success to every later caller, who dereferences it", p.WitnessText(w)...)
			}
		})
	}
	r.Count("remembered call results", nI)
	r.Floor("C16.i remembered call results", nI, 1)

	// ---- (j) a quotient used as a divisor is clamped ----
	// x / y is 0 whenever x < y; dividing or taking a remainder by such a quotient panics unless it was replaced by a
	// non-zero value first (`if q == 0 { q = 1 }`)
	nJ := 0
	for _, f := range fns {
		core.EachInstr(f, func(in ssa.Instruction) {
			bo, ok := in.(*ssa.BinOp)
			if !ok || (bo.Op != token.REM && bo.Op != token.QUO) {
				return
			}
			if b, ok := bo.Type().Underlying().(*types.Basic); !ok || b.Info()&types.IsInteger == 0 {
				return
			}
			bad := ""
			quotient := false
			for _, lf := range core.PhiLeaves(bo.Y, bo) {
				q, ok := lf.V.(*ssa.BinOp)
				if !ok || q.Op != token.QUO {
					continue
				}
				// quotients of two configuration values (service fields filled from the chain specification at
				// construction) are constants of the chain; only a quotient with a per-call operand is data
				onlyConfig := true
				ds.D(q).Walk(func(x *core.VD) bool {
					switch x.Kind {
					case "binop", "const", "convert":
					case "field":
						if len(x.Args) == 1 && x.Args[0].Kind == "param" {
							return false
						}
						onlyConfig = false
					default:
						onlyConfig = false
					}
					return true
				})
				if onlyConfig {
					continue
				}
				quotient = true
				// the raw quotient reaches the division: it must have been tested non-zero on that edge
				w := core.UnguardedLeaf(ds, f, nil, lf, func(c core.Cond) int {
					if c.Op == "" || c.X == nil || c.Y == nil {
						return -1
					}
					// numerator >= denominator: the quotient is at least 1
					if e := numeratorNotBelowDenominator(ds, c, q); e >= 0 {
						return e
					}
					var o, k *core.VD
					if c.Y.Kind == "const" {
						o, k = c.X, c.Y
					} else if c.X.Kind == "const" {
						o, k = c.Y, c.X
					} else {
						return -1
					}
					if o.Val != ssa.Value(q) || k.Name != "0" {
						return -1
					}
					for s := 0; s < 2; s++ {
						rel := c.RelOnEdge(s)
						if rel == "!=" || rel == ">" {
							return s
						}
					}
					return -1
				})
				if w != nil {
					bad = ds.D(q).String()
				}
			}
			if !quotient {
				return
			}
			nJ++
			r.Check(bad == "", "C16.j", fmt.Sprintf("%s|divisor-is-quotient#%d", core.FnKey(f), nJ), p.Pos(bo.Pos()), "the quotient is replaced by a non-zero value before it divides",
				"the divisor "+bad+" is itself a quotient and can be 0 (numerator smaller than denominator): integer divide by zero")
		})
	}
	r.Count("divisions by a quotient", nJ)
	r.Floor("C16.j divisions by a quotient", nJ, 1)
	// ---- (k) a configurator handed out with a nil error is a usable object (shared with C12.h) ----
	nK := checkConfiguratorObjects(p, r, ds, "C16.k", p.FuncsIn("services/blockrelay"))
	r.Floor("C16.k configurator constructions", nK, 2)

	// ---- (l) inserts into nested maps find the inner map in place ----
	nL := checkNestedMapWrites(p, r, ds, "C16.l", p.SrcFuncs())
	r.Floor("C16.l nested map inserts", nL, 3)

	// ---- (n) a number taken from a decoded document indexes another collection only behind a range test: in a
	// function that json-decodes into a local, an index expression derived from that local and applied to a
	// collection that is not part of it is guarded by `index < len(collection)` ----
	nTaint, nTaintIdx := 0, 0
	for _, f := range p.SrcFuncs() {
		var decoded []*ssa.Alloc
		for _, ci := range core.Calls(f, func(c *ssa.CallCommon) bool {
			n := core.CalleeName(c)
			return strings.HasSuffix(n, "encoding/json.Unmarshal") || strings.HasSuffix(n, "encoding/json.Decoder.Decode")
		}) {
			args := ci.Common().Args
			last := args[len(args)-1]
			if mi, ok := last.(*ssa.MakeInterface); ok {
				if a, ok := mi.X.(*ssa.Alloc); ok {
					decoded = append(decoded, a)
				}
			}
		}
		if len(decoded) == 0 {
			continue
		}
		nTaint++
		fromDecoded := func(v ssa.Value) bool {
			d := ds.D(v)
			return d.Any(func(x *core.VD) bool {
				for _, a := range decoded {
					if x.Val == ssa.Value(a) {
						return true
					}
				}
				return false
			})
		}
		core.EachInstr(f, func(in ssa.Instruction) {
			ia, ok := in.(*ssa.IndexAddr)
			if !ok {
				return
			}
			if _, isConst := ia.Index.(*ssa.Const); isConst {
				return
			}
			if !fromDecoded(ia.Index) || fromDecoded(ia.X) {
				return
			}
			nTaintIdx++
			idxS := ds.D(ia.Index).String()
			collS := ds.D(ia.X).String()
			w := core.Unguarded(ds, f, nil, func(x ssa.Instruction) bool { return x == in }, func(c core.Cond) int {
				if c.Op == "" {
					return -1
				}
				for _, side := range [][2]*core.VD{{c.X, c.Y}, {c.Y, c.X}} {
					if side[0].String() != idxS || side[1].Kind != "len" || side[1].Args[0].String() != collS {
						continue
					}
					for e := 0; e < 2; e++ {
						rel := c.RelOnEdge(e)
						if side[0] == c.Y {
							rel = core.FlipRel(rel)
						}
						if rel == "<" {
							return e
						}
					}
				}
				return -1
			})
			r.Check(w == nil, "C16.n", fmt.Sprintf("%s|decoded-index#%d", core.FnKey(f), nTaintIdx), p.Pos(ia.Pos()), "an index taken from a decoded document is range-tested before use",
				"the index "+idxS+" comes from a decoded (JSON) document and is applied to "+collS+" without `index < len(...)` having been established: an out-of-range (or negative) value from the other side panics with index out of range", p.WitnessText(w)...)
		})
	}
	r.Count("functions decoding JSON into a local", nTaint)
	r.Floor("C16.n functions decoding JSON into a local", nTaint, 5)
	if nTaintIdx == 0 {
		r.Hold("C16.n", "no-decoded-index", "", "no index expression derived from a decoded document is applied to a foreign collection")
	}

	// ---- (o) the bids a relay's worker remembers between rounds are verified ones (the range report divides by the
	// first remembered bid's value, which verification guarantees to be non-zero): shared with C09.a ----
	checkVerifiedStateOnly(p, r, ds, "C16.o", "deadline", p.FuncsIn("strategies/builderbid/deadline"), "a bid that failed (or skipped) verification — for instance a zero-value bid — is remembered as the relay's first bid, and the report of the relay's bid range divides by its value: division by zero in the relay's goroutine")

	// ---- (p) observation: shadowed non-error variables module-wide (reported as a table, decided in C05/C06) ----
	{
		var rows []string
		for _, sh := range p.ShadowedResults() {
			if !sh.IsError {
				rows = append(rows, sh.Pkg+"."+sh.Func+": "+sh.Name+" @"+p.Pos(sh.Inner))
			}
		}
		r.Tables["shadowed-non-error-variables"] = rows
	}

	// ---- (q) a position taken from one byte/bit collection is applied to another only behind a length test: bit lists
	// of attestations for one committee can differ in length (data from a beacon node), so `dst[i]` with i ranging over
	// `src` needs `i < len(dst)` ----
	nForeign := 0
	isBytes := func(t types.Type) bool {
		sl, ok := t.Underlying().(*types.Slice)
		if !ok {
			return false
		}
		b, ok := sl.Elem().Underlying().(*types.Basic)
		return ok && b.Kind() == types.Uint8
	}
	for _, f := range p.SrcFuncs() {
		core.EachInstr(f, func(in ssa.Instruction) {
			ia, ok := in.(*ssa.IndexAddr)
			if !ok || !isBytes(ia.X.Type()) {
				return
			}
			coll, ok := core.RangeIndex(ia.Index)
			if !ok || !isBytes(coll.Type()) {
				return
			}
			if coll == ia.X || sameExpr(coll, ia.X, 0) {
				return
			}
			nForeign++
			idxS, collS := ds.D(ia.Index).String(), ds.D(ia.X).String()
			w := core.Unguarded(ds, f, nil, func(x ssa.Instruction) bool { return x == in }, func(c core.Cond) int {
				if c.Op == "" {
					return -1
				}
				for _, side := range [][2]*core.VD{{c.X, c.Y}, {c.Y, c.X}} {
					if side[0].String() != idxS || side[1].Kind != "len" || side[1].Args[0].String() != collS {
						continue
					}
					for e := 0; e < 2; e++ {
						rel := c.RelOnEdge(e)
						if side[0] == c.Y {
							rel = core.FlipRel(rel)
						}
						if rel == "<" {
							return e
						}
					}
				}
				return -1
			})
			r.Check(w == nil, "C16.q", fmt.Sprintf("%s|foreign-byte-index#%d", core.FnKey(f), nForeign), p.Pos(ia.Pos()), "the position is tested against the length of the collection it is applied to",
				"bytes of "+collS+" are addressed with a position that ranges over "+ds.D(coll).String()+" without `i < len(...)`: when the second collection is longer (bit lists of different lengths for one committee) this is an index out of range panic", p.WitnessText(w)...)
		})
	}
	if nForeign == 0 {
		r.Hold("C16.q", "no-foreign-byte-index", "", "no byte collection is addressed with a position that ranges over another one")
	}

	// ---- (m) a helper of the program that can return nil without an error obliges its callers to test the result ----
	nM := 0
	for _, f := range p.SrcFuncs() {
		for _, nd := range core.NilNilDerefs(ds, f, func(c *ssa.Call) []*ssa.Function { return p.CalleesAt(f, c) }) {
			nM++
			r.Violate("C16.m", fmt.Sprintf("%s|nil-result-deref|%s", core.FnKey(f), ds.D(nd.Value).String()), p.Pos(nd.Use.Pos()), "dereference of a call result that "+nd.Why+", without a nil test", p.WitnessText(nd.Witness)...)
		}
	}
	if nM == 0 {
		r.Hold("C16.m", "no-nil-without-error-deref", "", "no result of a program function that can be nil without an error is dereferenced untested")
	}

	r.Assumptions = append(r.Assumptions, "quotients of chain-specification constants held in service fields (sync committee size / subnet count / target aggregators) are not zero on a real chain")
	sort.Strings(r.OutOfScope)
}

// exemptNilDeref lists maybe-nil merges that are infeasible, one named symbol with a reason each.
func exemptNilDeref(f *ssa.Function, name string) bool {
	return false
}

func leavesOneLevel(v ssa.Value, at ssa.Instruction) []core.Leaf {
	if phi, ok := v.(*ssa.Phi); ok {
		var out []core.Leaf
		for i, e := range phi.Edges {
			pb := phi.Block().Preds[i]
			out = append(out, core.Leaf{V: e, At: pb.Instrs[len(pb.Instrs)-1], Pred: pb, To: phi.Block()})
		}
		return out
	}
	return []core.Leaf{{V: v, At: at}}
}

// sliceLenAtLeast: is the slice value of this leaf known to have at least n elements?
func sliceLenAtLeast(ds *core.Describer, f *ssa.Function, lf core.Leaf, n int64, depth int) (bool, string) {
	if depth > 5 {
		return false, "too deep"
	}
	switch x := lf.V.(type) {
	case *ssa.Slice:
		// slice of an array (or pointer to array) with constant bounds
		var alen int64 = -1
		t := x.X.Type().Underlying()
		if pt, ok := t.(*types.Pointer); ok {
			t = pt.Elem().Underlying()
		}
		if at, ok := t.(*types.Array); ok {
			alen = at.Len()
		}
		lo, hi := int64(0), alen
		if x.Low != nil {
			c, ok := x.Low.(*ssa.Const)
			if !ok {
				return false, "non-constant lower bound"
			}
			lo = c.Int64()
		}
		if x.High != nil {
			c, ok := x.High.(*ssa.Const)
			if !ok {
				return false, "non-constant upper bound"
			}
			hi = c.Int64()
		}
		if hi >= 0 && hi-lo >= n {
			return true, ""
		}
		if alen < 0 && x.High != nil {
			// reslice of a slice to a constant length: safe only if the operand is long enough; s[0:32] itself panics otherwise,
			// which is a different (also fatal) site; require the operand's guard
			if hi-lo >= n {
				// the reslice succeeded, so the result has hi-lo elements
				return true, ""
			}
		}
		return false, fmt.Sprintf("slice of %d elements", hi-lo)
	case *ssa.Phi:
		for _, l2 := range leavesOneLevel(x, lf.At) {
			if ok, why := sliceLenAtLeast(ds, f, l2, n, depth+1); !ok {
				return false, why
			}
		}
		return true, ""
	case *ssa.Const:
		return false, "nil slice"
	}
	// guarded by len(v) >= n / == n on the way
	w := core.UnguardedLeaf(ds, f, nil, lf, func(c core.Cond) int {
		if c.Op == "" {
			return -1
		}
		var o, k *core.VD
		flip := false
		if c.X.Kind == "len" && c.Y.Kind == "const" {
			o, k = c.X, c.Y
		} else if c.Y.Kind == "len" && c.X.Kind == "const" {
			o, k, flip = c.Y, c.X, true
		} else {
			return -1
		}
		if o.Args[0].Val != lf.V && o.Args[0].String() != ds.D(lf.V).String() {
			return -1
		}
		var kv int64
		if _, err := fmt.Sscanf(k.Name, "%d", &kv); err != nil {
			return -1
		}
		for s := 0; s < 2; s++ {
			rel := c.RelOnEdge(s)
			if flip {
				rel = core.FlipRel(rel)
			}
			if (rel == "==" && kv >= n) || (rel == ">=" && kv >= n) || (rel == ">" && kv >= n-1) {
				return s
			}
		}
		return -1
	})
	if w == nil {
		return true, ""
	}
	return false, "the length of " + ds.D(lf.V).String() + " is not established to be >= " + fmt.Sprint(n)
}

func derefs(v ssa.Value, in ssa.Instruction) bool {
	switch x := in.(type) {
	case *ssa.FieldAddr:
		return x.X == v
	case *ssa.UnOp:
		return x.X == v && x.Op.String() == "*"
	case ssa.CallInstruction:
		c := x.Common()
		if !c.IsInvoke() && c.StaticCallee() != nil && len(c.Args) > 0 && c.Args[0] == v && c.StaticCallee().Signature.Recv() != nil {
			// method with pointer receiver: dereferences inside unless it tests the receiver; treat field-reading callees as dereferencing
			return methodDerefsReceiver(c.StaticCallee())
		}
		// passed to a function that dereferences the corresponding parameter at once
		if f := c.StaticCallee(); f != nil && f.Blocks != nil {
			for i, a := range c.Args {
				if a == v && i < len(f.Params) {
					if paramDerefdUnguarded(f, f.Params[i]) {
						return true
					}
				}
			}
		}
	}
	return false
}

func methodDerefsReceiver(f *ssa.Function) bool {
	if f.Blocks == nil || len(f.Params) == 0 {
		return false
	}
	return paramDerefdUnguarded(f, f.Params[0])
}

// paramDerefdUnguarded: the parameter is dereferenced in the entry block (before any test).
func paramDerefdUnguarded(f *ssa.Function, prm *ssa.Parameter) bool {
	if len(f.Blocks) == 0 {
		return false
	}
	ds := core.NewDescriber()
	var bad bool
	core.EachInstr(f, func(in ssa.Instruction) {
		if bad {
			return
		}
		if fa, ok := in.(*ssa.FieldAddr); ok && fa.X == ssa.Value(prm) {
			if w := core.Unguarded(ds, f, nil, func(x ssa.Instruction) bool { return x == in }, core.NonNilGuard(ds, prm)); w != nil {
				bad = true
			}
		}
	})
	return bad
}

// decodedField: the field is a []*T / map[K]*T of a struct that is filled by encoding/json (the struct or a
// same-named field of a JSON shadow struct in its package carries json tags).
func decodedField(p *core.Prog, id core.FieldID) bool {
	i := strings.LastIndex(id.Owner, ".")
	if i < 0 {
		return false
	}
	rel, tn := id.Owner[:i], id.Owner[i+1:]
	if p.Func(rel, tn, "UnmarshalJSON") != nil {
		return true
	}
	// a struct that is the direct target of json.Unmarshal in its package
	found := false
	for _, f := range p.FuncsIn(rel) {
		for _, ci := range core.CallsNamed(f, "Unmarshal") {
			c := ci.Common().StaticCallee()
			if c == nil || c.Pkg == nil || c.Pkg.Pkg.Path() != "encoding/json" {
				continue
			}
			for _, a := range ci.Common().Args {
				if mi, ok := a.(*ssa.MakeInterface); ok {
					if strings.HasSuffix(typeName(mi.X.Type()), "."+tn) || typeName(mi.X.Type()) == tn {
						found = true
					}
				}
			}
		}
	}
	return found
}

// collectionValidated: the owner type's UnmarshalJSON returns an error for a nil element of the collection that
// ends up in the field.
func collectionValidated(p *core.Prog, ds *core.Describer, id core.FieldID) bool {
	i := strings.LastIndex(id.Owner, ".")
	rel, tn := id.Owner[:i], id.Owner[i+1:]
	f := p.Func(rel, tn, "UnmarshalJSON")
	if f == nil {
		return false
	}
	ok := false
	core.EachInstr(f, func(in ssa.Instruction) {
		ifi, isIf := in.(*ssa.If)
		if !isIf || ok {
			return
		}
		c := core.DecodeCond(ds, ifi)
		if c.Op != "==" && c.Op != "!=" {
			return
		}
		var o *core.VD
		if c.Y.Kind == "const" && c.Y.Name == "nil" {
			o = c.X
		} else if c.X.Kind == "const" && c.X.Name == "nil" {
			o = c.Y
		} else {
			return
		}
		// o is an element of the JSON struct's field of the same name
		var coll ssa.Value
		if rg, which, isR := core.MapRange(o.Val); isR && which == 2 {
			coll = rg.X
		} else if cc, _, isE := core.RangeElem(o.Val); isE {
			coll = cc
		} else {
			return
		}
		cd := ds.D(coll)
		if !(cd.Kind == "field" && cd.Name == id.Name) {
			return
		}
		// the collection tested is the decoded document's, not the receiver's own (still empty) field of the same name
		if len(f.Params) > 0 && len(cd.Args) > 0 && cd.Args[0].Kind == "param" && cd.Args[0].Name == f.Params[0].Name() {
			return
		}
		// the nil edge reaches an error return
		nilSucc := -1
		for s := 0; s < 2; s++ {
			if c.RelOnEdge(s) == "==" {
				nilSucc = s
			}
		}
		if nilSucc < 0 {
			return
		}
		prev := ifi.Block()
		b := ifi.Block().Succs[nilSucc]
		for step := 0; step < 6 && b != nil; step++ {
			for _, x := range b.Instrs {
				if ret, isRet := x.(*ssa.Return); isRet && len(ret.Results) == 1 {
					res := ret.Results[0]
					// what this path hands to a merged return (an inlined helper's result variable)
					if phi, isPhi := res.(*ssa.Phi); isPhi && phi.Block() == b {
						for k, pr := range b.Preds {
							if pr == prev {
								res = phi.Edges[k]
							}
						}
					}
					if !core.MayBeNilErr(ds, f, res, ret) {
						ok = true
					}
				}
			}
			if len(b.Succs) != 1 {
				break
			}
			prev, b = b, b.Succs[0]
		}
	})
	return ok
}

// checkDecodedCollections: elements of pointer collections filled by a JSON decoder are tested non-nil before
// they are dereferenced (or the owner's unmarshaler rejects null entries). Returns the number of sites decided.
func checkDecodedCollections(p *core.Prog, r *core.Report, ds *core.Describer, rule string, fns []*ssa.Function, inScope func(rel string) bool) int {
	nD := 0
	seenD := map[string]bool{}
	for _, f := range fns {
		rel := core.RelPkg(f.Pkg.Pkg.Path())
		if !inScope(rel) {
			continue
		}
		core.EachInstr(f, func(in ssa.Instruction) {
			var elem ssa.Value
			var coll ssa.Value
			switch x := in.(type) {
			case *ssa.Extract:
				// map range value / comma-ok lookup value
				if rg, which, ok := core.MapRange(x); ok && which == 2 {
					elem, coll = x, rg.X
				}
				if lk, ok := x.Tuple.(*ssa.Lookup); ok && x.Index == 0 {
					elem, coll = x, lk.X
				}
			case *ssa.Lookup:
				if !x.CommaOk {
					elem, coll = x, x.X
				}
			case *ssa.UnOp:
				if c, _, ok := core.RangeElem(x); ok {
					elem, coll = x, c
				} else if ia, ok := x.X.(*ssa.IndexAddr); ok && x.Op.String() == "*" {
					elem, coll = x, ia.X
				}
			}
			if elem == nil {
				return
			}
			pt, ok := elem.Type().Underlying().(*types.Pointer)
			if !ok {
				return
			}
			if _, isStruct := pt.Elem().Underlying().(*types.Struct); !isStruct {
				return
			}
			fid, ok := core.FieldOfValue(coll)
			if !ok || !decodedField(p, fid) {
				return
			}
			// dereferencing uses of the element (directly, or of a value it is merged into)
			if elem.Referrers() == nil {
				return
			}
			type useOf struct {
				v   ssa.Value
				use ssa.Instruction
			}
			var uses []useOf
			seenPhi := map[ssa.Value]bool{elem: true}
			work := []ssa.Value{elem}
			for len(work) > 0 && len(seenPhi) < 8 {
				v := work[0]
				work = work[1:]
				if v.Referrers() == nil {
					continue
				}
				for _, use := range *v.Referrers() {
					uses = append(uses, useOf{v, use})
					if phi, ok := use.(*ssa.Phi); ok && !seenPhi[phi] {
						seenPhi[phi] = true
						work = append(work, phi)
					}
				}
			}
			for _, uo := range uses {
				elem, use := uo.v, uo.use
				if !derefs(elem, use) {
					continue
				}
				construct := fmt.Sprintf("%s|element-of|%s", core.FnKey(f), fid.String())
				if seenD[construct] {
					continue
				}
				seenD[construct] = true
				nD++
				if collectionValidated(p, ds, fid) {
					r.Hold(rule, construct, p.Pos(use.Pos()), "nil entries of "+fid.String()+" are rejected when the document is unmarshalled")
					continue
				}
				var w []ssa.Instruction
				if !nonNilOnLeaf(ds, f, core.Leaf{V: elem, At: use}, 0) {
					w = core.Unguarded(ds, f, nil, func(y ssa.Instruction) bool { return y == use }, core.NonNilGuard(ds, elem))
					if w == nil {
						w = []ssa.Instruction{use}
					}
				}
				r.Check(w == nil, rule, construct, p.Pos(use.Pos()), "the decoded entry is tested non-nil before use",
					"an entry of "+fid.String()+" (filled from JSON, where null is a legal element) is dereferenced without a nil test: a null entry crashes the process", p.WitnessText(w)...)
			}
		})
	}
	return nD
}

// nonNilOnLeaf: the pointer value of the leaf is certainly not nil where it is used (or where it flows along its
// edge): it is an allocation, a non-nil test dominates it, or it is a merge all of whose incoming values are
// non-nil on their own edges (`if p == nil { p = &T{} }`).
func nonNilOnLeaf(ds *core.Describer, fn *ssa.Function, lf core.Leaf, depth int) bool {
	switch lf.V.(type) {
	case *ssa.Alloc, *ssa.MakeMap, *ssa.MakeSlice, *ssa.FieldAddr, *ssa.IndexAddr, *ssa.MakeInterface:
		return true
	}
	if core.UnguardedLeaf(ds, fn, nil, lf, core.NonNilGuard(ds, lf.V)) == nil {
		return true
	}
	if phi, ok := lf.V.(*ssa.Phi); ok && depth < 4 {
		for i, e := range phi.Edges {
			pb := phi.Block().Preds[i]
			if len(pb.Instrs) == 0 {
				return false
			}
			if !nonNilOnLeaf(ds, fn, core.Leaf{V: e, At: pb.Instrs[len(pb.Instrs)-1], Pred: pb, To: phi.Block()}, depth+1) {
				return false
			}
		}
		return true
	}
	return false
}

// numeratorNotBelowDenominator: the edge of a comparison between the two operands of the quotient q on which
// numerator >= denominator holds (the quotient is then at least 1), or -1.
func numeratorNotBelowDenominator(ds *core.Describer, c core.Cond, q *ssa.BinOp) int {
	if c.X == nil || c.Y == nil {
		return -1
	}
	flip := false
	num, den := ds.D(q.X).String(), ds.D(q.Y).String()
	switch {
	case (c.X.Val == q.X || c.X.String() == num) && (c.Y.Val == q.Y || c.Y.String() == den):
	case (c.X.Val == q.Y || c.X.String() == den) && (c.Y.Val == q.X || c.Y.String() == num):
		flip = true
	default:
		return -1
	}
	for e := 0; e < 2; e++ {
		rel := c.RelOnEdge(e)
		if flip {
			rel = core.FlipRel(rel)
		}
		if rel == ">=" || rel == ">" {
			return e
		}
	}
	return -1
}
