package rules

import (
	"fmt"
	"go/token"
	"go/types"
	"sort"
	"strings"

	"golang.org/x/tools/go/ssa"

	"vouchcheck/internal/core"
)

func init() {
	register(&Pack{
		ID:  "C20",
		Run: runC20,
		Expl: "Decides structural necessary conditions of 'memory and goroutines stay bounded; shutdown accounting is exact': " +
			"(1) every map field of a long-lived service that is keyed by slot, epoch, root or a job/bid name and receives inserts outside the constructor has an accepted boundedness evidence that is not conditional on a configuration flag: " +
			"E1 a pruning loop (delete inside a range over the same map) passed on every path through the insert, E2 a pruning loop in an unconditionally scheduled periodic job, E3 a sliding delete(m, k-c) on an event-handler path, " +
			"E4 a sliding delete passed (or deferred) on every exit of the operation that inserts, E5 consume-by-job with the mark also cleared when the job is withdrawn; exempt fields are listed with the reason; " +
			"(2) the pending-attestations mark is set under its mutex before the attestation job's goroutine is started, for the duty's own slot; cleared by a defer at the start of the job function; cleared on every successful cancel of an attestation job; read under the lock; the shutdown wait polls exactly that mark for the current slot; " +
			"(3) every goroutine started per element of a collection that sends its result on a channel with a plain send has a channel whose capacity is the size of that collection (or sends inside a select with a done arm): a smaller buffer leaves the later senders blocked for ever. " +
			"Added with the third seeding round: (4) every strategy fan-out runs under a context derived from the strategy's WithTimeout/WithDeadline (followed through parameters). Added with the fourth seeding round: (1, extended) a sliding delete that depends on an earlier call's success is no evidence; (5) wait groups balance module-wide. Added with the fifth seeding round: (6) the unblinding goroutines never wait for a semaphore with a blocking Acquire; (y) C02.d, C05.e and C12.l are taken over. Added with the sixth seeding round and the false-alarm regression: (y) C18.e (the cleaner's cut-off) is taken over; (x) no epoch/slot re-typing without the slots-per-epoch factor. Added with the seventh seeding round: (1, extended) a pruning loop removes the entries that lie before its reference point. Added with the tenth seeding round: (2, extended) the pending mark is cleared only by the job's own deferred clear or on the success edge of a CancelJob. Added at the end: (7) a metric label that is formatted from a number is formatted from a remainder, a constant or a flag at every call of the metrics helper (the label set stays bounded). NOT decided: actual sizes over long runs, memory held by libraries, goroutines blocked inside client calls that ignore their context, timing of the shutdown wait.",
		Technique:   "who-writes analysis of map fields with evidence search by path queries (must-pass-through, defer-aware), config-flag dependence by single-edge deletion, provenance of channel capacities through parameters, lock-set dataflow",
		Rule:        "one obligation per subject map field (1), per mark set/clear/read site (2), per fan-out goroutine/channel pair (3)",
		Assumptions: []string{"E3 (single-key sliding delete on an event root) assumes at least one timely head event per key step; recorded, not proved"},
	})
}

var c20Exempt = map[string]string{
	"services/accountmanager/dirk.Service.wallets":                      "keyed by wallet name: bounded by the configured wallets",
	"services/blockrelay/standard.Service.signedValidatorRegistrations": "keyed by the content root of (fee recipient, gas limit, pubkey): grows only when a validator's configuration content changes",
	"services/scheduler/advanced.Service.jobs":                          "every job goroutine or its claimer removes the name exactly once: decided under C02.h",
}

func isBoundedKeyType(t types.Type) bool {
	if core.IsSlotOrEpoch(t) {
		return true
	}
	s := types.TypeString(t, nil)
	if strings.HasSuffix(s, "spec/phase0.Root") {
		return true
	}
	if b, ok := t.Underlying().(*types.Basic); ok && b.Kind() == types.String {
		return true
	}
	return false
}

// flagDependent: is target reachable only with a particular value of a boolean configuration field of the service?
func flagDependent(ds *core.Describer, f *ssa.Function, target ssa.Instruction) (bool, string) {
	for _, b := range f.Blocks {
		if len(b.Instrs) == 0 {
			continue
		}
		ifi, ok := b.Instrs[len(b.Instrs)-1].(*ssa.If)
		if !ok {
			continue
		}
		flag := ""
		// the condition (or an operand of a && / ||) is a bare boolean field of the service
		var scan func(v ssa.Value, depth int)
		scan = func(v ssa.Value, depth int) {
			if depth > 3 {
				return
			}
			switch x := v.(type) {
			case *ssa.UnOp:
				if x.Op.String() == "!" {
					scan(x.X, depth+1)
					return
				}
				if id, ok := core.FieldOfValue(x); ok {
					if bt, ok := x.Type().Underlying().(*types.Basic); ok && bt.Kind() == types.Bool && strings.HasSuffix(id.Owner, ".Service") {
						flag = id.Name
					}
				}
			case *ssa.Phi:
				for _, e := range x.Edges {
					scan(e, depth+1)
				}
			}
		}
		scan(ifi.Cond, 0)
		// also the predecessors' conditions for short-circuit phis
		if phi, ok := ifi.Cond.(*ssa.Phi); ok {
			for _, pb := range phi.Block().Preds {
				if len(pb.Instrs) > 0 {
					if pi, ok := pb.Instrs[len(pb.Instrs)-1].(*ssa.If); ok {
						scan(pi.Cond, 0)
					}
				}
			}
		}
		if flag == "" {
			continue
		}
		for s := 0; s < 2; s++ {
			w := core.PathQuery{Fn: f, Target: func(in ssa.Instruction) bool { return in == target }, Edge: func(bb *ssa.BasicBlock, succ int) bool {
				return !(bb == b && succ == s)
			}}.Find()
			if w == nil {
				return true, flag
			}
		}
	}
	return false, ""
}

type pruner struct {
	fn  *ssa.Function
	rng ssa.Instruction // the Range over the field
	del ssa.Instruction
}

func runC20(p *core.Prog, r *core.Report, tier string) {
	ds := core.NewDescriber()
	la := core.NewLockAnalysis(p)

	// ---------- (1) bounded maps ----------
	type info struct {
		keyT    types.Type
		inserts []core.MapOp
		insFns  []*ssa.Function
		deletes []core.MapOp
		delFns  []*ssa.Function
		ranges  map[*ssa.Function][]core.MapOp
		stores  []*ssa.Function
	}
	fields := map[core.FieldID]*info{}
	get := func(id core.FieldID) *info {
		if fields[id] == nil {
			fields[id] = &info{ranges: map[*ssa.Function][]core.MapOp{}}
		}
		return fields[id]
	}
	for _, f := range p.SrcFuncs() {
		for _, op := range core.MapOps(f) {
			if !strings.HasSuffix(op.Field.Owner, ".Service") {
				continue
			}
			in := get(op.Field)
			switch op.Kind {
			case "insert":
				if f.Name() == "New" {
					continue
				}
				in.inserts = append(in.inserts, op)
				in.insFns = append(in.insFns, f)
				in.keyT = op.Instr.(*ssa.MapUpdate).Map.Type().Underlying().(*types.Map).Key()
			case "delete":
				in.deletes = append(in.deletes, op)
				in.delFns = append(in.delFns, f)
			case "range":
				in.ranges[f] = append(in.ranges[f], op)
			}
		}
		if f.Name() != "New" {
			core.EachInstr(f, func(x ssa.Instruction) {
				if st, ok := x.(*ssa.Store); ok {
					if id, _, ok := core.FieldOfAddr(st.Addr); ok && strings.HasSuffix(id.Owner, ".Service") {
						if _, isMap := st.Val.Type().Underlying().(*types.Map); isMap {
							get(id).stores = append(get(id).stores, f)
						}
					}
				}
			})
		}
	}
	var ids []core.FieldID
	for id, in := range fields {
		if len(in.inserts) > 0 && in.keyT != nil && isBoundedKeyType(in.keyT) {
			ids = append(ids, id)
		}
	}
	sort.Slice(ids, func(i, j int) bool { return ids[i].String() < ids[j].String() })
	r.Count("subject map fields", len(ids))
	r.Floor("C20.1 subject map fields", len(ids), 8)
	subjectTable := map[string]string{}

	// event handlers: functions passed (as method values) to an Events(...) call
	eventHandlers := map[*ssa.Function]bool{}
	periodicJobs := map[*ssa.Function]ssa.CallInstruction{}
	for _, f := range p.SrcFuncs() {
		core.EachInstr(f, func(in ssa.Instruction) {
			ci, ok := in.(ssa.CallInstruction)
			if !ok {
				return
			}
			name := core.MethodName(ci.Common())
			if name != "Events" && name != "SchedulePeriodicJob" {
				return
			}
			for _, a := range ci.Common().Args {
				fn := funcValueOf(a)
				if fn == nil {
					continue
				}
				if name == "Events" {
					eventHandlers[fn] = true
				} else {
					periodicJobs[fn] = ci
				}
			}
		})
	}

	for _, id := range ids {
		in := fields[id]
		key := id.String()
		if why, ok := c20Exempt[key]; ok {
			r.Hold("C20.1", "bounded-map|"+key, "", "exempt: "+why)
			subjectTable[key] = "exempt: " + why
			continue
		}
		var evidences []string
		var reasons []string
		if len(in.stores) > 0 {
			evidences = append(evidences, "E0 wholesale replacement in "+core.FnKey(in.stores[0]))
		}
		// pruning loops
		var pruners []pruner
		for f, rs := range in.ranges {
			for _, rg := range rs {
				for i, d := range in.deletes {
					if in.delFns[i] != f {
						continue
					}
					// the delete is inside the loop of this range: reachable from the Range's Next and back
					if loopsContain(p, f, rg.Instr, d.Instr) {
						pruners = append(pruners, pruner{f, rg.Instr, d.Instr})
					}
				}
			}
		}
		// a pruning loop bounds the map only if it removes the OLD entries: where the delete is decided by an order
		// comparison between the entry being visited and something else, the entry is on the smaller side
		for k, pr := range pruners {
			db := pr.del.Block()
			if len(db.Preds) != 1 {
				continue
			}
			pb := db.Preds[0]
			iff, ok := pb.Instrs[len(pb.Instrs)-1].(*ssa.If)
			if !ok {
				continue
			}
			edge := 0
			if pb.Succs[1] == db {
				edge = 1
			}
			c := core.DecodeCond(ds, iff)
			rel := c.RelOnEdge(edge)
			if rel != "<" && rel != "<=" && rel != ">" && rel != ">=" {
				continue
			}
			ofEntry := func(d *core.VD) bool {
				return d.Any(func(x *core.VD) bool {
					ex, ok := x.Val.(*ssa.Extract)
					if !ok {
						return false
					}
					nx, ok := ex.Tuple.(*ssa.Next)
					return ok && nx.Iter == ssa.Value(pr.rng.(*ssa.Range)) && (ex.Index == 1 || ex.Index == 2)
				})
			}
			ex, ey := ofEntry(c.X), ofEntry(c.Y)
			if ex == ey {
				continue
			}
			entrySmaller := (ex && (rel == "<" || rel == "<=")) || (ey && (rel == ">" || rel == ">="))
			r.Check(entrySmaller, "C20.1", fmt.Sprintf("bounded-map|%s|pruner-removes-old-entries#%d", key, k+1), p.Pos(core.IfPos(iff)), "the pruning loop removes entries that lie before the reference point",
				"the pruning loop removes the entries that lie AFTER the reference point ("+c.X.String()+" "+rel+" "+c.Y.String()+"): the old entries are never removed and the map grows for the life of the process")
		}
		for _, pr := range pruners {
			// E1: pruning loop passed on every path through an insert in the same function, or the pruner is called on every such path
			for i, ins := range in.inserts {
				insF := in.insFns[i]
				var pruneAt ssa.Instruction
				if insF == pr.fn {
					pruneAt = pr.rng
				} else {
					for _, ci := range core.Calls(insF, func(c *ssa.CallCommon) bool { return c.StaticCallee() == pr.fn }) {
						pruneAt = ci.(ssa.Instruction)
					}
				}
				if pruneAt == nil {
					continue
				}
				isPrune := func(x ssa.Instruction) bool { return x == pruneAt }
				// a path may skip the pruning only on an edge where len(map) <= threshold is established
				small := core.GuardEdges(ds, insF, func(c core.Cond) int {
					if c.Op == "" {
						return -1
					}
					isLen := func(d *core.VD) bool {
						return d.Kind == "len" && len(d.Args) == 1 && d.Args[0].Kind == "field" && d.Args[0].Name == id.Name
					}
					flip := false
					switch {
					case isLen(c.X) && c.Y.Kind == "const":
					case isLen(c.Y) && c.X.Kind == "const":
						flip = true
					default:
						return -1
					}
					for s := 0; s < 2; s++ {
						rel := c.RelOnEdge(s)
						if flip {
							rel = core.FlipRel(rel)
						}
						if rel == "<=" || rel == "<" {
							return s
						}
					}
					return -1
				})
				notSmall := func(b *ssa.BasicBlock, succ int) bool {
					if s, ok := small[b]; ok && s == succ {
						return false
					}
					return true
				}
				before := core.PathQuery{Fn: insF, Target: func(x ssa.Instruction) bool { return x == ins.Instr }, Avoid: isPrune}.Find() == nil
				after := core.PathQuery{Fn: insF, From: ins.Instr, Target: core.IsExit, Avoid: isPrune, Edge: notSmall}.Find() == nil
				if before || after {
					if dep, flag := flagDependent(ds, insF, pruneAt); dep {
						reasons = append(reasons, "pruning in "+core.FnKey(insF)+" depends on configuration flag "+flag)
						continue
					}
					evidences = append(evidences, "E1 prune-on-insert in "+core.FnKey(insF))
				} else {
					reasons = append(reasons, "the pruning loop in "+core.FnKey(pr.fn)+" is not passed on every path through the insert in "+core.FnKey(insF))
				}
			}
			// E2: periodic pruner
			if site, ok := periodicJobs[pr.fn]; ok {
				if dep, flag := flagDependent(ds, site.Parent(), site.(ssa.Instruction)); dep {
					reasons = append(reasons, "the periodic pruning job is only scheduled under configuration flag "+flag)
				} else {
					evidences = append(evidences, "E2 periodic pruning job "+core.FnKey(pr.fn))
				}
			}
			// a pruner that is only called from somewhere else: is that call flag dependent?
			if n := p.CallGraph().Nodes[pr.fn]; n != nil && pr.fn.Name() != "" {
				for _, e := range n.In {
					if e.Site == nil {
						continue
					}
					caller := e.Caller.Func
					if caller == nil || caller.Pkg == nil || !core.IsProd(caller.Pkg.Pkg.Path()) {
						continue
					}
					if dep, flag := flagDependent(ds, caller, e.Site.(ssa.Instruction)); dep {
						reasons = append(reasons, "the pruner "+core.FnKey(pr.fn)+" is only called under configuration flag "+flag+" in "+core.FnKey(caller))
					} else if eventHandlers[caller] || periodicJobs[caller] != nil {
						evidences = append(evidences, "E2 pruner called unconditionally from root "+core.FnKey(caller))
					}
				}
			}
		}
		// sliding deletes (key = x - c)
		for i, d := range in.deletes {
			f := in.delFns[i]
			kd := ds.D(d.Key)
			if !(kd.Kind == "binop" && kd.Name == "-" && kd.Args[1].Kind == "const") {
				continue
			}
			// a single-key delete that is only reached when an earlier call of the function succeeded does not slide:
			// every failure leaves the key it would have removed behind for ever
			if call := deleteDependsOnSuccess(ds, f, d.Instr); call != "" {
				reasons = append(reasons, "the sliding delete in "+core.FnKey(f)+" is only reached when "+call+" succeeds: each failure leaks the entry that delete would have removed (later deletes target later keys)")
				continue
			}
			// E3: on an event handler path
			root := f
			if eventHandlers[root] {
				if dep, flag := flagDependent(ds, f, d.Instr); dep {
					reasons = append(reasons, "the sliding delete in "+core.FnKey(f)+" depends on configuration flag "+flag)
				} else {
					evidences = append(evidences, "E3 sliding delete on event root "+core.FnKey(f)+" (assumes a timely event per key step)")
				}
				continue
			}
			// E4: passed or deferred on every exit of the operation that inserts
			for _, op := range operationsInserting(p, in.insFns) {
				housekeepers := core.Calls(op.fn, func(c *ssa.CallCommon) bool { return c.StaticCallee() == f })
				if f == op.fn {
					continue
				}
				if len(housekeepers) == 0 {
					continue
				}
				isHK := func(x ssa.Instruction) bool {
					for _, h := range housekeepers {
						if x == h.(ssa.Instruction) {
							return true
						}
					}
					return false
				}
				// a deferred housekeeping registered on every path before the insert call, or a call on every path after it
				deferredBefore := false
				for _, h := range housekeepers {
					if _, isDefer := h.(*ssa.Defer); isDefer {
						// every return is reached through the defer registration?
						w := core.PathQuery{Fn: op.fn, From: op.site, Target: core.IsExit, Avoid: func(x ssa.Instruction) bool { return x == h.(ssa.Instruction) }}.Find()
						w0 := core.PathQuery{Fn: op.fn, Target: func(x ssa.Instruction) bool { return x == op.site }, Avoid: func(x ssa.Instruction) bool { return x == h.(ssa.Instruction) }}.Find()
						if w == nil || w0 == nil {
							deferredBefore = true
						}
					}
				}
				w := core.PathQuery{Fn: op.fn, From: op.site, Target: core.IsExit, Avoid: isHK}.Find()
				if deferredBefore || w == nil {
					evidences = append(evidences, "E4 sliding delete on every exit of "+core.FnKey(op.fn))
				} else {
					reasons = append(reasons, "the housekeeping delete is skipped on some exit of "+core.FnKey(op.fn)+" (e.g. "+strings.Join(p.WitnessText(w[len(w)-1:]), "")+")")
				}
			}
		}
		// E5: consume by job (pendingAttestations): handled in group (2); accept here if the delete is in a deferred closure of a job function
		for i := range in.deletes {
			f := in.delFns[i]
			if f.Parent() != nil {
				par := f.Parent()
				isDeferred := false
				core.EachInstr(par, func(x ssa.Instruction) {
					if d, ok := x.(*ssa.Defer); ok {
						if mc, ok := d.Call.Value.(*ssa.MakeClosure); ok && mc.Fn == f {
							isDeferred = true
						}
						if fv, ok := d.Call.Value.(*ssa.Function); ok && fv == f {
							isDeferred = true
						}
					}
				})
				if isDeferred {
					evidences = append(evidences, "E5 cleared by a defer in the consuming job "+core.FnKey(par)+" (withdrawal handling checked under C20.2)")
				}
			}
		}
		sort.Strings(evidences)
		subjectTable[key] = strings.Join(evidences, "; ")
		if len(evidences) > 0 {
			r.Hold("C20.1", "bounded-map|"+key, p.Pos(in.inserts[0].Instr.Pos()), strings.Join(evidences, "; "))
		} else {
			why := "entries are inserted (" + core.FnKey(in.insFns[0]) + ") and never removed"
			if len(in.deletes) > 0 || len(reasons) > 0 {
				why = "no unconditional pruning: " + strings.Join(dedupe(reasons), "; ")
				if len(reasons) == 0 {
					why = "entries are only removed by " + core.FnKey(in.delFns[0]) + ", which is not a recognised unconditional pruning (consume-only: entries that are never consumed stay for ever)"
				}
			}
			r.Violate("C20.1", "bounded-map|"+key, p.Pos(in.inserts[0].Instr.Pos()), "map "+key+" keyed by "+types.TypeString(in.keyT, func(pk *types.Package) string { return pk.Name() })+" can grow without bound: "+why)
		}
	}
	r.Tables["bounded-map-evidence"] = subjectTable

	// ---------- (2) pending-attestations mark ----------
	pend := core.FieldID{Owner: ctrlRel + ".Service", Name: "pendingAttestations"}
	pin := fields[pend]
	if pin == nil || len(pin.inserts) == 0 {
		r.Violate("C20.2", "pending-mark|set", "", "no pending-attestations mark is ever set: a shutdown does not wait for in-flight attestations")
	} else {
		for i, ins := range pin.inserts {
			f := pin.insFns[i]
			base := core.FnKey(f) + "|pending-mark"
			mu := ins.Instr.(*ssa.MapUpdate)
			r.Check(heldGuard(p, la, la.HeldAt(f)[ins.Instr], pend, true), "C20.2", base+"|set-locked", p.Pos(ins.Instr.Pos()), "mark set under its mutex", "the pending mark is set without pendingAttestationsMutex")
			kd := ds.D(mu.Key)
			r.Check(kd.IsCall("services/attester.Duty.Slot"), "C20.2", base+"|set-key", p.Pos(ins.Instr.Pos()), "mark keyed by duty.Slot()", "mark keyed by "+kd.String())
			// the goroutine that schedules the attestation job is started only after the mark
			scheduled := false
			for _, g := range core.WithClosures(outermost(f)) {
				core.EachInstr(g, func(x ssa.Instruction) {
					ci, ok := x.(ssa.CallInstruction)
					if !ok || core.MethodName(ci.Common()) != "ScheduleJob" || len(ci.Common().Args) < 5 {
						return
					}
					jf := jobFuncOf(ci.Common().Args[4])
					if jf == nil || len(core.CallsNamed(jf, "AttestAndScheduleAggregate")) == 0 {
						return
					}
					scheduled = true
					// the path to this ScheduleJob (through the go statement in the outermost function) passes the mark
					target := x
					fn := g
					if g != f {
						// find the go statement in f that starts g (or an ancestor of g)
						anc := g
						for anc.Parent() != nil && anc.Parent() != f {
							anc = anc.Parent()
						}
						fn = f
						target = nil
						core.EachInstr(f, func(y ssa.Instruction) {
							if gi, ok := y.(*ssa.Go); ok {
								if mc, ok := gi.Call.Value.(*ssa.MakeClosure); ok && mc.Fn == anc {
									target = y
								}
								// a literal that captures nothing (everything is handed in as arguments) is a plain function value
								if fv, ok := gi.Call.Value.(*ssa.Function); ok && fv == anc {
									target = y
								}
							}
						})
						if target == nil {
							r.Violate("C20.2", base+"|set-before-schedule", p.Pos(x.Pos()), "the attestation job is scheduled from a function that does not set the mark")
							return
						}
					} else if ins.Instr.Parent() != g {
						return
					}
					w := core.PathQuery{Fn: fn, Target: func(y ssa.Instruction) bool { return y == target }, Avoid: func(y ssa.Instruction) bool { return y == ins.Instr }}.Find()
					r.Check(w == nil, "C20.2", base+"|set-before-schedule", p.Pos(x.Pos()), "the mark is set before the attestation job is set up", "the attestation job can be set up (and run) before the pending mark is set: a shutdown in between does not wait for it, and a mark set after the job finished is never cleared", p.WitnessText(w)...)
				})
			}
			if !scheduled {
				// the mark might be set inside the goroutine after scheduling: find ScheduleJob preceding it in the same function
				for _, ci := range core.CallsNamed(f, "ScheduleJob") {
					w := core.PathQuery{Fn: f, Target: func(y ssa.Instruction) bool { return y == ci.(ssa.Instruction) }, Avoid: func(y ssa.Instruction) bool { return y == ins.Instr }}.Find()
					r.Check(w == nil, "C20.2", base+"|set-before-schedule", p.Pos(ci.Pos()), "the mark is set before the attestation job is set up", "the attestation job is set up before the pending mark is set: a shutdown in between does not wait for it, and a mark set after the job finished is never cleared", p.WitnessText(w)...)
					scheduled = true
				}
			}
			r.Check(scheduled, "C20.2", base+"|schedules-job", p.Pos(ins.Instr.Pos()), "the function that sets the mark sets up the attestation job", "the mark is set by a function that does not set up the attestation job")
		}
		// cleared by a defer at the start of the job function
		job := p.Func(ctrlRel, "Service", "AttestAndScheduleAggregate")
		if job == nil {
			r.Undecide("C20.2", "pending-mark|job", "", "AttestAndScheduleAggregate not found")
		} else {
			var def ssa.Instruction
			core.EachInstr(job, func(x ssa.Instruction) {
				d, ok := x.(*ssa.Defer)
				if !ok {
					return
				}
				var deferredFn ssa.Value
				if mc, ok := d.Call.Value.(*ssa.MakeClosure); ok {
					deferredFn = mc.Fn
				} else if fv, ok := d.Call.Value.(*ssa.Function); ok && fv.Parent() != nil {
					deferredFn = fv
				}
				if deferredFn != nil {
					if cf, ok := deferredFn.(*ssa.Function); ok {
						for _, op := range core.MapOps(cf) {
							if op.Kind == "delete" && op.Field == pend {
								def = x
								kd := ds.D(op.Key)
								r.Check(kd.IsCall("services/attester.Duty.Slot"), "C20.2", core.FnKey(job)+"|clear-key", p.Pos(op.Instr.Pos()), "mark cleared for duty.Slot()", "the deferred clear uses key "+kd.String())
								r.Check(heldGuard(p, la, la.HeldAt(cf)[op.Instr], pend, true), "C20.2", core.FnKey(job)+"|clear-locked", p.Pos(op.Instr.Pos()), "mark cleared under its mutex", "mark cleared without its mutex")
							}
						}
					}
				}
			})
			if def == nil {
				r.Violate("C20.2", core.FnKey(job)+"|clear-deferred", p.Pos(job.Pos()), "the attestation job does not clear the pending mark in a defer: a failing or panicking run leaves the slot pending for ever")
			} else {
				w := core.PathQuery{Fn: job, Target: core.IsExit, Avoid: func(x ssa.Instruction) bool { return x == def }}.Find()
				r.Check(w == nil, "C20.2", core.FnKey(job)+"|clear-deferred", p.Pos(def.Pos()), "the deferred clear is registered before any exit of the job", "the job can return before registering the deferred clear of the pending mark", p.WitnessText(w)...)
			}
		}
		// cleared when the job is withdrawn
		nCancel := 0
		for _, f := range p.FuncsIn(ctrlRel) {
			for _, ci := range core.CallsNamed(f, "CancelJob", "CancelJobIfExists") {
				args := ci.Common().Args
				nd := ds.D(args[len(args)-1])
				if !strings.Contains(nd.String(), "Attestations for slot") {
					continue
				}
				nCancel++
				base := core.FnKey(f) + "|cancel-attestation-job"
				var dels []ssa.Instruction
				for _, op := range core.MapOps(f) {
					if op.Kind == "delete" && op.Field == pend {
						dels = append(dels, op.Instr)
					}
				}
				isDel := func(x ssa.Instruction) bool {
					for _, d := range dels {
						if x == d {
							return true
						}
					}
					return false
				}
				// along the success edge, before the next cancel or the exit, the mark is cleared
				est := map[*ssa.BasicBlock]int{}
				if call, ok := ci.(*ssa.Call); ok && core.MethodName(ci.Common()) == "CancelJob" {
					e := core.GuardEdges(ds, f, func(c core.Cond) int {
						s := core.ErrNilSucc(c, call)
						if s < 0 {
							return -1
						}
						return 1 - s // failure edge: nothing was withdrawn
					})
					est = e
				}
				w := core.PathQuery{Fn: f, From: ci.(ssa.Instruction), Target: func(x ssa.Instruction) bool { return core.IsExit(x) || x == ci.(ssa.Instruction) }, Avoid: isDel, Edge: func(b *ssa.BasicBlock, succ int) bool {
					if s, ok := est[b]; ok && s == succ {
						return false
					}
					return true
				}}.Find()
				r.Check(w == nil, "C20.2", base+"|clears-mark", p.Pos(ci.Pos()), "a withdrawn attestation job's pending mark is cleared", "an attestation job is cancelled without clearing its pending mark: the slot stays pending for ever (shutdown hangs, map grows with every reorg)", p.WitnessText(w)...)
			}
		}
		r.Floor("C20.2 cancel sites of attestation jobs", nCancel, 1)
		// who clears the mark: the job itself when it ends (the deferred clear in AttestAndScheduleAggregate), and the
		// code that has just withdrawn the job (on the success edge of its CancelJob) — nobody else: a failed
		// ScheduleJob, for one, means "a job of that name exists", and clearing its mark hides a live job from shutdown
		nClear := 0
		for _, f := range p.FuncsIn(ctrlRel) {
			for _, op := range core.MapOps(f) {
				if op.Kind != "delete" || op.Field != pend {
					continue
				}
				nClear++
				construct := fmt.Sprintf("%s|clear-of-pending-mark#%d|by-job-end-or-after-withdrawal", core.FnKey(f), nClear)
				if strings.HasPrefix(outermost(f).Name(), "AttestAndScheduleAggregate") && f.Parent() != nil {
					r.Hold("C20.2", construct, p.Pos(op.Instr.Pos()), "the job clears its own mark when it ends")
					continue
				}
				var cancels []*ssa.Call
				for _, ci := range core.CallsNamed(f, "CancelJob") {
					if c, ok := ci.(*ssa.Call); ok {
						cancels = append(cancels, c)
					}
				}
				del := op.Instr
				w := []ssa.Instruction{del}
				if len(cancels) > 0 {
					w = core.Unguarded(ds, f, nil, func(x ssa.Instruction) bool { return x == del }, func(c core.Cond) int {
						for _, call := range cancels {
							if s := core.ErrNilSucc(c, call); s >= 0 {
								return s
							}
						}
						return -1
					})
				}
				r.Check(w == nil, "C20.2", construct, p.Pos(del.Pos()), "the mark is cleared only after the job was withdrawn", "the pending mark of a slot is cleared although no attestation job was withdrawn on this path (nor has the job ended): a job that is still set up for the slot is hidden from the shutdown wait", p.WitnessText(w)...)
			}
		}
		r.Floor("C20.2 clears of the pending mark", nClear, 2)
		// read under lock
		if hp := p.Func(ctrlRel, "Service", "HasPendingAttestations"); hp != nil {
			okRead := false
			for _, op := range core.MapOps(hp) {
				if op.Kind == "lookup" && op.Field == pend {
					okRead = true
					r.Check(heldGuard(p, la, la.HeldAt(hp)[op.Instr], pend, false), "C20.2", core.FnKey(hp)+"|read-locked", p.Pos(op.Instr.Pos()), "mark read under its mutex", "mark read without its mutex")
					kd := ds.D(op.Key)
					r.Check(kd.Kind == "param", "C20.2", core.FnKey(hp)+"|read-key", p.Pos(op.Instr.Pos()), "reads the mark of the slot asked for", "reads the mark of "+kd.String())
				}
			}
			r.Check(okRead, "C20.2", core.FnKey(hp)+"|reads-mark", p.Pos(hp.Pos()), "HasPendingAttestations reads the mark map", "HasPendingAttestations does not consult the pending-attestations map")
		}
		// shutdown wait in main
		nWait := 0
		for _, f := range p.FuncsIn("") {
			for _, ci := range core.CallsNamed(f, "HasPendingAttestations") {
				nWait++
				args := ci.Common().Args
				sd := ds.D(args[len(args)-1])
				r.Check(sd.MentionsCall("CurrentSlot"), "C20.2", "main|shutdown-wait|slot", p.Pos(ci.Pos()), "the shutdown wait polls the current slot's mark", "the shutdown wait polls "+sd.String())
			}
		}
		r.Floor("C20.2 shutdown wait sites", nWait, 1)
	}

	// ---------- (3) fan-out goroutines ----------
	nFan := 0
	nCtxFan := 0
	for _, f := range p.SrcFuncs() {
		core.EachInstr(f, func(in ssa.Instruction) {
			g, ok := in.(*ssa.Go)
			if !ok {
				return
			}
			loops := loopsContainingPos(p, f, g.Pos())
			if len(loops) == 0 {
				return
			}
			l := loops[len(loops)-1]
			if l.RangeExpr() == nil {
				return
			}
			var body *ssa.Function
			switch cv := g.Call.Value.(type) {
			case *ssa.MakeClosure:
				body, _ = cv.Fn.(*ssa.Function)
			case *ssa.Function:
				body = cv
			}
			if body == nil {
				return
			}
			// (4) in the strategies the requests of a fan-out run under the strategy's own time limit: the context
			// handed to (or captured by) the goroutine derives from context.WithTimeout/WithDeadline, so a node
			// that never answers holds its goroutine for the time limit, not for the life of the caller's context
			if strings.HasPrefix(core.RelPkg(f.Pkg.Pkg.Path()), "strategies/") {
				var ctxVals []ssa.Value
				for _, a := range g.Call.Args {
					if strings.HasSuffix(a.Type().String(), "context.Context") {
						ctxVals = append(ctxVals, a)
					}
				}
				if mc, ok := g.Call.Value.(*ssa.MakeClosure); ok {
					for _, b := range mc.Bindings {
						t := b.Type()
						if pt, ok := t.(*types.Pointer); ok {
							t = pt.Elem()
						}
						if strings.HasSuffix(t.String(), "context.Context") {
							ctxVals = append(ctxVals, b)
						}
					}
				}
				var bounded func(v ssa.Value, depth int) bool
				bounded = func(v ssa.Value, depth int) bool {
					// a captured context variable that was re-assigned (ctx, cancel := WithTimeout(ctx, …)): what it
					// holds where the goroutine is started
					if cell, ok := v.(*ssa.Alloc); ok && cell.Parent() == g.Parent() {
						if rv := core.ReachingStore(cell, g); rv != nil {
							v = rv
						}
					}
					d := ds.D(v)
					if d.MentionsCall("context.WithTimeout", "context.WithDeadline") {
						return true
					}
					if prm, ok := v.(*ssa.Parameter); ok && depth < 3 {
						for i, q := range prm.Parent().Params {
							if q == prm {
								os := p.ParamOrigins(prm.Parent(), i, 0)
								if len(os) == 0 {
									return false
								}
								for _, o := range os {
									if !bounded(o, depth+1) {
										return false
									}
								}
								return true
							}
						}
					}
					return false
				}
				for i, cv := range ctxVals {
					nCtxFan++
					r.Check(bounded(cv, 0), "C20.4", fmt.Sprintf("%s|fan-out over %s|context#%d", core.FnKey(f), types.ExprString(l.RangeExpr()), i+1), p.Pos(g.Pos()), "the requests run under the strategy's time limit",
						"the goroutines of this fan-out run under "+ds.D(cv).String()+", which is not bounded by the strategy's timeout: a node that never answers keeps its goroutine (and connection) for as long as the caller's context lives — one more per call")
				}
			}
			// plain sends in the body on channel parameters / captured channels
			for k, a := range g.Call.Args {
				if _, isChan := a.Type().Underlying().(*types.Chan); !isChan {
					continue
				}
				pi := k
				if body.Signature.Recv() != nil {
					// method value call: args include receiver first
				}
				if pi >= len(body.Params) {
					continue
				}
				prm := body.Params[pi]
				plain := false
				core.EachInstr(body, func(x ssa.Instruction) {
					if s, ok := x.(*ssa.Send); ok && s.Chan == ssa.Value(prm) {
						plain = true
					}
				})
				if !plain {
					continue
				}
				nFan++
				construct := fmt.Sprintf("%s|fan-out over %s|chan %s", core.FnKey(f), types.ExprString(l.RangeExpr()), prm.Name())
				// capacity of the channel
				caps := chanCapacities(p, ds, f, a, 0)
				if len(caps) == 0 {
					r.Undecide("C20.3", construct, p.Pos(g.Pos()), "cannot find where the channel is made")
					continue
				}
				rangeDesc := rangeCollectionDesc(p, ds, f, l)
				// the other safe form: the parent never stops receiving — it ranges over the channel until a goroutine that
				// has waited for every sender closes it, and does not leave that loop or return ahead of it
				drained := drainedUntilClosed(p, f, g, a)
				for _, c := range caps {
					ok := c == "len("+rangeDesc+")" || drained
					r.Check(ok, "C20.3", construct, p.Pos(g.Pos()), "channel capacity "+c+" equals the number of goroutines started",
						"one goroutine per element of "+rangeDesc+" sends on a channel of capacity "+c+": senders beyond the buffer block for ever once the parent has stopped receiving (goroutine leak per call)")
				}
			}
		})
	}
	r.Count("fan-out goroutine/channel pairs", nFan)
	r.Floor("C20.3 fan-out goroutine/channel pairs", nFan, 20)
	r.Floor("C20.4 strategy fan-out contexts", nCtxFan, 12)

	// ---------- (6) the unblinding goroutines never wait for their semaphore ----------
	nSemOps := 0
	for _, f := range p.SrcFuncs() {
		if f.Name() == "unblindProposal" && f.Parent() == nil {
			nSemOps += checkNoBlockingAcquire(p, r, "C20.6", f)
		}
	}
	r.Floor("C20.6 semaphore operations in unblinding goroutines", nSemOps, 4)
	r.Hold("C20.6", "unblinding|semaphore-never-waited-for", "", fmt.Sprintf("%d semaphore operations in the unblinding goroutines examined", nSemOps))

	// ---------- (7) metric series stay bounded: a label value that is formatted from a number is formatted from a
	// remainder (a position within an epoch, a bucket), a constant or a flag — at every call of the metrics helper.
	// A label formatted from a slot, an epoch or an index adds a time series (with all its buckets) per value, for the
	// life of the process. (Labels that are names — providers, strategies, job classes — come from configured finite
	// sets and are not judged.) ----------
	nLabels := 0
	var boundedInt func(v ssa.Value, depth int) (bool, string)
	boundedInt = func(v ssa.Value, depth int) (bool, string) {
		for i := 0; i < 4; i++ {
			switch x := v.(type) {
			case *ssa.Convert:
				v = x.X
				continue
			case *ssa.ChangeType:
				v = x.X
				continue
			case *ssa.MakeInterface:
				v = x.X
				continue
			}
			break
		}
		switch x := v.(type) {
		case *ssa.Const:
			return true, ""
		case *ssa.BinOp:
			if x.Op == token.REM || x.Op == token.AND {
				return true, ""
			}
			return false, ds.D(x).String()
		case *ssa.Phi:
			for _, e := range x.Edges {
				if ok, why := boundedInt(e, depth); !ok {
					return false, why
				}
			}
			return true, ""
		case *ssa.Parameter:
			if depth > 3 {
				return false, ds.D(x).String()
			}
			k := core.ParamIndex(x.Parent(), x.Name())
			os := p.ParamOrigins(x.Parent(), k, 0)
			if len(os) == 0 {
				return false, "parameter " + x.Name() + " (no call found)"
			}
			for _, o := range os {
				if ok, why := boundedInt(o, depth+1); !ok {
					return false, why
				}
			}
			return true, ""
		}
		if b, ok := v.Type().Underlying().(*types.Basic); ok && b.Info()&types.IsBoolean != 0 {
			return true, ""
		}
		return false, ds.D(v).String()
	}
	for _, f := range p.SrcFuncs() {
		core.EachInstr(f, func(in ssa.Instruction) {
			c, ok := in.(*ssa.Call)
			if !ok || core.MethodName(c.Common()) != "WithLabelValues" {
				return
			}
			// the label values: elements stored into the variadic slice
			for _, a := range c.Call.Args {
				sl, ok := a.(*ssa.Slice)
				if !ok {
					continue
				}
				al, ok := sl.X.(*ssa.Alloc)
				if !ok || al.Referrers() == nil {
					continue
				}
				for _, ref := range *al.Referrers() {
					ia, ok := ref.(*ssa.IndexAddr)
					if !ok || ia.Referrers() == nil {
						continue
					}
					for _, r2 := range *ia.Referrers() {
						st, ok := r2.(*ssa.Store)
						if !ok {
							continue
						}
						// formatted from a number?
						fc, ok := st.Val.(*ssa.Call)
						if !ok {
							continue
						}
						name := core.CalleeName(fc.Common())
						var nums []ssa.Value
						switch {
						case name == "fmt.Sprintf" || name == "fmt.Sprint":
							for _, fa := range fc.Call.Args {
								if vs, ok := fa.(*ssa.Slice); ok {
									if val, ok := vs.X.(*ssa.Alloc); ok && val.Referrers() != nil {
										for _, r3 := range *val.Referrers() {
											if ia2, ok := r3.(*ssa.IndexAddr); ok && ia2.Referrers() != nil {
												for _, r4 := range *ia2.Referrers() {
													if st2, ok := r4.(*ssa.Store); ok {
														x := st2.Val
														if mi, ok := x.(*ssa.MakeInterface); ok {
															x = mi.X
														}
														if b, ok := x.Type().Underlying().(*types.Basic); ok && b.Info()&types.IsInteger != 0 {
															nums = append(nums, x)
														}
													}
												}
											}
										}
									}
								}
							}
						case strings.HasPrefix(name, "strconv.Itoa") || strings.HasPrefix(name, "strconv.Format"):
							if len(fc.Call.Args) > 0 {
								nums = append(nums, fc.Call.Args[0])
							}
						}
						for _, x := range nums {
							nLabels++
							ok, why := boundedInt(x, 0)
							r.Check(ok, "C20.7", fmt.Sprintf("%s|metric-label-from-number#%d|bounded", core.FnKey(f), nLabels), p.Pos(c.Pos()), "the number a metric label is formatted from is a remainder, a constant or a flag at every call",
								"a metric label is formatted from "+why+", which grows with the chain: every new value adds a time series (and its buckets) to the registry for the life of the process")
						}
					}
				}
			}
		})
	}
	r.Floor("C20.7 metric labels formatted from numbers", nLabels, 1)

	// ---------- (5) wait groups balance everywhere: a goroutine stuck in Wait (and whatever it holds) is never freed ----------
	nWG := checkWaitGroupBalance(p, r, "C20.5", p.SrcFuncs(), "the waiting goroutine and everything it references stay for ever, one more per call")
	r.Floor("C20.5 wait group Add sites", nWG, 4)
}

func dedupe(in []string) []string {
	seen := map[string]bool{}
	var out []string
	for _, s := range in {
		if !seen[s] {
			seen[s] = true
			out = append(out, s)
		}
	}
	return out
}

func outermost(f *ssa.Function) *ssa.Function {
	for f.Parent() != nil {
		f = f.Parent()
	}
	return f
}

func funcValueOf(v ssa.Value) *ssa.Function {
	switch x := v.(type) {
	case *ssa.Function:
		return unbound(x)
	case *ssa.MakeClosure:
		fn, _ := x.Fn.(*ssa.Function)
		return unbound(fn)
	case *ssa.ChangeType:
		return funcValueOf(x.X)
	case *ssa.MakeInterface:
		return funcValueOf(x.X)
	}
	return nil
}

// unbound resolves a bound-method wrapper (s.method used as a value) to the method itself.
func unbound(fn *ssa.Function) *ssa.Function {
	if fn == nil {
		return nil
	}
	if strings.Contains(fn.Synthetic, "bound method wrapper") {
		if obj, ok := fn.Object().(*types.Func); ok && fn.Prog != nil {
			if m := fn.Prog.FuncValue(obj); m != nil {
				return m
			}
		}
	}
	return fn
}

// loopsContain: both instructions lie in one source loop of f.
func loopsContain(p *core.Prog, f *ssa.Function, a, b ssa.Instruction) bool {
	for _, l := range p.Loops(f) {
		if rs := l.RangeExpr(); rs != nil && l.Contains(b.Pos()) && l.Stmt.Pos() <= a.Pos() && a.Pos() <= l.Stmt.End() {
			return true
		}
	}
	return false
}

type opSite struct {
	fn   *ssa.Function
	site ssa.Instruction
}

// operationsInserting returns the callers (one level) of the inserting functions, with the call site.
func operationsInserting(p *core.Prog, insFns []*ssa.Function) []opSite {
	var out []opSite
	for _, f := range insFns {
		n := p.CallGraph().Nodes[f]
		if n == nil {
			continue
		}
		for _, e := range n.In {
			if e.Site != nil && e.Site.Common().StaticCallee() == f && e.Caller.Func.Pkg == f.Pkg {
				out = append(out, opSite{e.Caller.Func, e.Site.(ssa.Instruction)})
			}
		}
	}
	return out
}

// chanCapacities describes the capacity expressions of the MakeChan(s) a channel value originates from.
func chanCapacities(p *core.Prog, ds *core.Describer, f *ssa.Function, v ssa.Value, depth int) []string {
	if depth > 4 {
		return nil
	}
	switch x := v.(type) {
	case *ssa.MakeChan:
		return []string{capDesc(p, ds, f, x.Size, 0)}
	case *ssa.ChangeType:
		// chan T handed over as chan<- T / <-chan T
		return chanCapacities(p, ds, f, x.X, depth)
	case *ssa.MakeInterface:
		return chanCapacities(p, ds, f, x.X, depth)
	case *ssa.Parameter:
		var out []string
		k := core.ParamIndex(x.Parent(), x.Name())
		for _, o := range p.ParamOrigins(x.Parent(), k, 0) {
			if in, ok := o.(ssa.Instruction); ok {
				out = append(out, chanCapacities(p, ds, in.Parent(), o, depth+1)...)
			}
		}
		return out
	case *ssa.Extract:
		// channel returned by a helper: look inside the callee
		if call, ok := x.Tuple.(*ssa.Call); ok {
			if cf := call.Call.StaticCallee(); cf != nil {
				var out []string
				for _, ret := range core.ReturnsOf(cf) {
					if x.Index < len(ret.Results) {
						for _, c := range chanCapacities(p, ds, cf, ret.Results[x.Index], depth+1) {
							out = append(out, c)
						}
					}
				}
				return out
			}
		}
	case *ssa.UnOp:
		if us := core.Unspill(x); us != ssa.Value(x) {
			return chanCapacities(p, ds, f, us, depth+1)
		}
		// captured variable
		d := ds.D(x)
		if mc, ok := d.Val.(*ssa.MakeChan); ok {
			return []string{capDesc(p, ds, f, mc.Size, 0)}
		}
		if d.Kind == "make" && d.Name == "chan" && len(d.Args) == 1 {
			return []string{d.Args[0].String()}
		}
	case *ssa.Phi:
		var out []string
		for _, e := range x.Edges {
			out = append(out, chanCapacities(p, ds, f, e, depth+1)...)
		}
		return out
	}
	d := ds.D(v)
	if d.Kind == "make" && d.Name == "chan" && len(d.Args) == 1 {
		return []string{d.Args[0].String()}
	}
	return nil
}

// capDesc describes a capacity value, following integer parameters to their origins.
func capDesc(p *core.Prog, ds *core.Describer, f *ssa.Function, v ssa.Value, depth int) string {
	if prm, ok := v.(*ssa.Parameter); ok && depth < 4 {
		k := core.ParamIndex(prm.Parent(), prm.Name())
		origins := p.ParamOrigins(prm.Parent(), k, 0)
		if len(origins) > 0 {
			first := ""
			for i, o := range origins {
				var of *ssa.Function
				if in, ok := o.(ssa.Instruction); ok {
					of = in.Parent()
				}
				d := capDesc(p, ds, of, o, depth+1)
				if i == 0 {
					first = d
				} else if d != first {
					return "?"
				}
			}
			return first
		}
	}
	return ds.D(v).String()
}

// rangeCollectionDesc describes the collection a loop ranges over, as an SSA value description.
func rangeCollectionDesc(p *core.Prog, ds *core.Describer, f *ssa.Function, l *core.Loop) string {
	desc := ""
	core.EachInstr(f, func(in ssa.Instruction) {
		switch x := in.(type) {
		case *ssa.Range:
			if x.Pos() >= l.Stmt.Pos() && x.Pos() <= l.Body.Pos() {
				desc = ds.D(x.X).String()
			}
		}
	})
	if desc == "" {
		// slice range: lowered to len(X) comparisons; use the expression's value via a len call at the loop position
		core.EachInstr(f, func(in ssa.Instruction) {
			if c, ok := in.(*ssa.Call); ok {
				if b, ok := c.Call.Value.(*ssa.Builtin); ok && b.Name() == "len" && c.Pos() >= l.Stmt.Pos() && c.Pos() <= l.Body.Pos() {
					desc = ds.D(c.Call.Args[0]).String()
				}
			}
		})
	}
	if desc == "" {
		desc = types.ExprString(l.RangeExpr())
	}
	return desc
}

// deleteDependsOnSuccess: the delete instruction is unreachable once the err == nil edges of some (T, error) call of
// the same function are removed; returns that call's name, "" otherwise.
func deleteDependsOnSuccess(ds *core.Describer, f *ssa.Function, del ssa.Instruction) string {
	out := ""
	core.EachInstr(f, func(in ssa.Instruction) {
		c, ok := in.(*ssa.Call)
		if !ok || out != "" {
			return
		}
		sig := c.Call.Signature()
		n := sig.Results().Len()
		if n == 0 || !core.IsErrorType(sig.Results().At(n-1).Type()) {
			return
		}
		var errV ssa.Value = c
		if n > 1 {
			errV = core.ExtractOf(c, n-1)
		}
		if errV == nil {
			return
		}
		guard := func(cd core.Cond) int { return core.ErrNilSucc(cd, errV) }
		if core.CountGuards(ds, f, guard) == 0 {
			return
		}
		if core.Unguarded(ds, f, nil, func(x ssa.Instruction) bool { return x == del }, guard) == nil {
			out = core.CalleeName(&c.Call)
		}
	})
	return out
}

// makeChanOf follows a channel value in f to the make that created it (through re-typing and single-assignment cells).
func makeChanOf(v ssa.Value) *ssa.MakeChan {
	for i := 0; i < 6; i++ {
		switch x := v.(type) {
		case *ssa.MakeChan:
			return x
		case *ssa.ChangeType:
			v = x.X
		case *ssa.UnOp:
			if x.Op != token.MUL {
				return nil
			}
			switch c := x.X.(type) {
			case *ssa.Alloc:
				var stored ssa.Value
				n := 0
				if c.Referrers() != nil {
					for _, ref := range *c.Referrers() {
						if st, ok := ref.(*ssa.Store); ok && st.Addr == ssa.Value(c) {
							stored = st.Val
							n++
						}
					}
				}
				if n != 1 {
					return nil
				}
				v = stored
			case *ssa.FreeVar:
				b := core.FreeVarBinding(c)
				a, ok := b.(*ssa.Alloc)
				if !ok {
					return nil
				}
				var stored ssa.Value
				n := 0
				if a.Referrers() != nil {
					for _, ref := range *a.Referrers() {
						if st, ok := ref.(*ssa.Store); ok && st.Addr == ssa.Value(a) {
							stored = st.Val
							n++
						}
					}
				}
				if n != 1 {
					return nil
				}
				v = stored
			default:
				return nil
			}
		default:
			return nil
		}
	}
	return nil
}

// drainedUntilClosed: the channel handed to the goroutine started at g is made in f; f receives from it in a
// `for … range ch` loop that has no early exit; a goroutine started by f closes it after a WaitGroup.Wait; every
// sender goroutine started in g's loop is handed (or captures) a wait group and defers Done; and f has no return
// between the start of the fan-out and the end of the draining loop.
func drainedUntilClosed(p *core.Prog, f *ssa.Function, g *ssa.Go, ch ssa.Value) bool {
	mk := makeChanOf(ch)
	if mk == nil || mk.Parent() != f {
		return false
	}
	// the draining loop
	var drain *core.Loop
	core.EachInstr(f, func(in ssa.Instruction) {
		u, ok := in.(*ssa.UnOp)
		if !ok || u.Op != token.ARROW || !u.CommaOk || makeChanOf(u.X) != mk {
			return
		}
		if !strings.Contains(u.Block().Comment, "rangechan") {
			return
		}
		for _, l := range p.Loops(f) {
			if l.Contains(u.Pos()) || l.Stmt.Pos() == u.Pos() || (l.Stmt.Pos() <= u.Pos() && u.Pos() <= l.Stmt.End()) {
				if drain == nil || l.Stmt.Pos() > drain.Stmt.Pos() {
					drain = l
				}
			}
		}
	})
	if drain == nil || len(drain.EarlyExits()) > 0 {
		return false
	}
	// closed after Wait, in a goroutine
	isWG := func(c *ssa.CallCommon, name string) bool {
		callee := c.StaticCallee()
		return callee != nil && callee.Name() == name && callee.Pkg != nil && callee.Pkg.Pkg.Path() == "sync" && callee.Signature.Recv() != nil && strings.HasSuffix(callee.Signature.Recv().Type().String(), "sync.WaitGroup")
	}
	closed := false
	core.EachInstr(f, func(in ssa.Instruction) {
		g2, ok := in.(*ssa.Go)
		if !ok {
			return
		}
		mc, ok := g2.Call.Value.(*ssa.MakeClosure)
		if !ok {
			return
		}
		fn, ok := mc.Fn.(*ssa.Function)
		if !ok {
			return
		}
		var wait ssa.Instruction
		core.EachInstr(fn, func(in2 ssa.Instruction) {
			if c, ok := in2.(*ssa.Call); ok && isWG(&c.Call, "Wait") && wait == nil {
				wait = c
			}
		})
		if wait == nil {
			return
		}
		core.EachInstr(fn, func(in2 ssa.Instruction) {
			c, ok := in2.(*ssa.Call)
			if !ok {
				return
			}
			b, ok := c.Call.Value.(*ssa.Builtin)
			if !ok || b.Name() != "close" || len(c.Call.Args) != 1 || !core.InstrDominates(wait, c) {
				return
			}
			arg := c.Call.Args[0]
			for i, prm := range fn.Params {
				if ssa.Value(prm) == arg && i < len(g2.Call.Args) {
					arg = g2.Call.Args[i]
				}
			}
			if makeChanOf(arg) == mk && addsPrecede(p, f, g2, isWG) {
				closed = true
			}
		})
	})
	if !closed {
		return false
	}
	// the sender defers Done
	body := funcValueOf(g.Call.Value)
	if body == nil {
		return false
	}
	done := false
	core.EachInstr(body, func(in ssa.Instruction) {
		if d, ok := in.(*ssa.Defer); ok && isWG(&d.Call, "Done") {
			done = true
		}
	})
	if !done {
		return false
	}
	// no return between the fan-out and the end of the draining loop
	okRet := true
	core.EachInstr(f, func(in ssa.Instruction) {
		if ret, ok := in.(*ssa.Return); ok && ret.Pos().IsValid() && ret.Pos() > g.Pos() && ret.Pos() < drain.Stmt.End() {
			okRet = false
		}
	})
	return okRet && drain.Stmt.Pos() > g.Pos()
}

// addsPrecede: every WaitGroup.Add of f is executed before the goroutine started at closer can reach its Wait — the
// Add comes earlier in f, and where it sits in a loop, the loop has ended (a closer started ahead of the Adds can see
// the count at zero and close the channel while senders are still to come).
func addsPrecede(p *core.Prog, f *ssa.Function, closer *ssa.Go, isWG func(*ssa.CallCommon, string) bool) bool {
	ok := true
	n := 0
	core.EachInstr(f, func(in ssa.Instruction) {
		c, isCall := in.(*ssa.Call)
		if !isCall || !isWG(&c.Call, "Add") {
			return
		}
		n++
		if !c.Pos().IsValid() || c.Pos() >= closer.Pos() {
			ok = false
			return
		}
		for _, l := range p.Loops(f) {
			if l.Contains(c.Pos()) && l.Stmt.End() >= closer.Pos() {
				ok = false
			}
		}
	})
	return ok && n > 0
}
