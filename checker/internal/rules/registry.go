// Package rules holds one rule pack per property.
package rules

import (
	"fmt"
	"go/constant"
	"go/token"
	"go/types"
	"sort"
	"strings"

	"golang.org/x/tools/go/ssa"

	"vouchcheck/internal/core"
)

// Pack is a rule pack.
type Pack struct {
	ID          string
	Run         func(p *core.Prog, r *core.Report, tier string)
	Expl        string // clauses decided / not decided
	Rule        string // how obligations are enumerated
	Assumptions []string
	Technique   string // a few words naming the deciding method
}

var packs = map[string]*Pack{}

func register(p *Pack) { packs[p.ID] = p }

// Get returns the pack for a property id.
func Get(id string) *Pack { return packs[id] }

// IDs lists registered property ids.
func IDs() []string {
	var out []string
	for k := range packs {
		out = append(out, k)
	}
	sort.Strings(out)
	return out
}

// commonScopes: the packages (relative paths, prefixes) each property's behaviour lives in, for the cross-cutting
// rules that are the same for every property (see Common).
var commonScopes = map[string][]string{
	"C01": {"services/attester", "strategies/attestationdata", "services/accountmanager"},
	"C02": {"services/scheduler"},
	"C03": {"services/controller", "services/chaintime", "services/scheduler", "services/attester"},
	"C04": {"services/attester"},
	"C05": {"services/beaconblockproposer", "services/signer"},
	"C06": {"services/signer"},
	"C07": {"strategies/"},
	"C08": {"services/submitter", "util"},
	"C09": {"strategies/builderbid", "services/blockrelay", "util"},
	"C10": {"services/blockrelay"},
	"C11": {"services/blockrelay", "services/proposalpreparer", "util"},
	"C12": {"services/blockrelay"},
	"C13": {"services/accountmanager", "services/validatorsmanager"},
	"C14": {"services/beaconcommitteesubscriber", "services/attestationaggregator", "services/controller"},
	"C15": {"services/synccommittee", "services/controller", "services/accountmanager"},
	"C16": {""},
	"C17": {""},
	"C18": {"services/cache", "strategies/beaconblockheader", "services/chaintime"},
	"C19": {"util", ""},
	"C20": {"services/controller", "services/attester", "strategies/", "services/beaconblockproposer", "services/blockrelay"},
}

// CommonExpl describes, for the evidence, the cross-cutting (.x) and taken-over (.y) rules that run for a property.
func CommonExpl(id string) string {
	out := ""
	if sc := commonScopes[id]; sc != nil {
		where := strings.Join(sc, ", ")
		if len(sc) == 1 && sc[0] == "" {
			where = "the whole module"
		}
		out += " Cross-cutting rules (.x) within " + where + ": no nested short declaration hides a result that is read after the block (loggers excepted); a memo table local to one call is keyed by all that the remembered value is computed from; no errors.Wrap of an error that is nil on every path; results that can be nil without an error are tested before use, and no result is used on the path where its call failed; no in-place removal at a loop index followed by the next index; no slot count re-typed as an epoch count (or back) without slotsPerEpoch, no integer ratio converted to floating point afterwards; no slice parameter sorted in place; wait groups balance, no fan-out under an errgroup context, coalesced requests keyed by the request; a guard before a submit/sign/send of a collection asks for non-empty, not for more than some number of elements; a closure that runs later from inside a loop does not share a variable declared outside the loop and assigned inside it; an integer quotient of two run-time quantities is not used as a modulus without a clamp; in strategies no send, receive or select on a channel kept in a service field; wiring: no two functional options of a package store into the same parameters field, and a Service field with the name and type of a parameters field is that setting or a constant default, never a value computed from other settings; language and library semantics (rules/semantics.go): no empty slice with spare capacity stored anew on every trip round a loop and no `b := a[:0]` with both appended to, no view of an outer array variable kept per trip, no in-place arithmetic on a big number obtained from a parameter or getter, no 64-bit accessor of a big number outside its range test (uses that only feed logging/metrics excepted), no slice-to-array conversion, no Wrap of an Unwrap, semaphore weights are the constant 1, no order comparison of unsigned values re-typed as signed, no multi-character cutset for TrimLeft/TrimRight, no ParseUint/ParseInt with base 0, no deferred Release/Unlock inside a loop, no hash state summed on every trip without a reset, no sort of one of several slices filled side by side, no map keyed by a pointer to a plain value, one form (T or *T) per error type in errors.As targets, no channel of nil-able results closed by another goroutine while it is received from with a single-valued receive."
	}
	if im := imports[id]; len(im) > 0 {
		out += " Taken over (.y) from sibling properties that rely on the same code: " + strings.Join(im, ", ") + "."
	}
	return out
}

// Common runs the cross-cutting rules within the property's scope. They are instances of one mechanism each
// (a value lost to a shadowed variable) that break whichever property lives in the code they occur in.
func Common(id string, p *core.Prog, r *core.Report) {
	scope := commonScopes[id]
	if scope == nil {
		return
	}
	prefixes := scope
	if len(scope) == 1 && scope[0] == "" {
		prefixes = nil
	}
	n := 0
	for _, sh := range p.ShadowedResults(prefixes...) {
		if sh.IsError {
			continue
		}
		if id == "C19" && sh.Pkg != "util" && sh.Pkg != "." && sh.Pkg != "" {
			continue
		}
		n++
		r.Violate(id+".x", sh.Pkg+"."+sh.Func+"|shadows|"+sh.Name, p.Pos(sh.Inner), "`"+sh.Name+" :=` in a nested block hides the "+sh.Name+" of the enclosing function, which is read again at "+p.Pos(sh.UsedAt)+" without having been assigned in between: the value obtained inside the block is lost and the stale (often zero) outer value is used")
	}
	if n == 0 {
		r.Hold(id+".x", "no-shadowed-results", "", "no nested short declaration hides a variable that is read after the block, in the property's packages")
	}

	// a memo table local to one call remembers a function of its key: the miss branch computes from the key and from
	// what is the same on every trip of the loop (the exact ones are replaced by the computation before the analysis,
	// core/memo.go; what is left is a memo that hands a later element the value computed for an earlier one)
	nMemo := 0
	for _, pm := range p.PartialMemos(prefixes...) {
		if id == "C19" && pm.Pkg != "util" && pm.Pkg != "." && pm.Pkg != "" {
			continue
		}
		nMemo++
		r.Violate(id+".x", pm.Pkg+"."+pm.Func+"|memo|"+pm.Map+"["+pm.Key+"]|keyed-by-all-it-is-computed-from", p.Pos(pm.Pos), "the value remembered in "+pm.Map+" under "+pm.Key+" is computed from "+strings.Join(pm.Culprits, ", ")+" as well, which changes from one trip of the loop to the next and is not part of the key: a later element with the same key is given the value computed for an earlier one")
	}
	if nMemo == 0 {
		r.Hold(id+".x", "memo-tables-keyed-by-their-inputs", "", "no memo table local to a call remembers a value computed from more than its key, in the property's packages")
	}

	// the functions of the property's packages
	var fns []*ssa.Function
	for _, f := range p.SrcFuncs() {
		rel := core.RelPkg(f.Pkg.Pkg.Path())
		in := prefixes == nil
		for _, pre := range prefixes {
			if pre == "" {
				if rel == "" || rel == "." {
					in = true
				}
				continue
			}
			if rel == pre || strings.HasPrefix(rel, pre) {
				in = true
			}
		}
		if in {
			fns = append(fns, f)
		}
	}
	ds := core.NewDescriber()

	// a rejection is an error: errors.Wrap & co. of an error that is nil on every path to the call return nil
	nw := 0
	for _, f := range fns {
		for _, ci := range core.Calls(f, func(c *ssa.CallCommon) bool {
			n := core.CalleeName(c)
			return strings.HasSuffix(n, "pkg/errors.Wrap") || strings.HasSuffix(n, "pkg/errors.Wrapf") || strings.HasSuffix(n, "pkg/errors.WithMessage") || strings.HasSuffix(n, "pkg/errors.WithMessagef") || strings.HasSuffix(n, "pkg/errors.WithStack")
		}) {
			e := ci.Common().Args[0]
			in := ci.(ssa.Instruction)
			knownNil := core.IsNilConst(e)
			if !knownNil && core.CountGuards(ds, f, core.NilGuard(ds, e)) > 0 {
				knownNil = core.Unguarded(ds, f, nil, func(x ssa.Instruction) bool { return x == in }, core.NilGuard(ds, e)) == nil
			}
			if knownNil {
				nw++
				r.Violate(id+".x", fmt.Sprintf("%s|wrap-of-nil|%s", core.FnKey(f), ds.D(e).String()), p.Pos(ci.Pos()), "the error wrapped here is nil on every path that reaches the call, so the wrapper returns nil: the failure this return stands for is reported as success")
			}
		}
	}
	if nw == 0 {
		r.Hold(id+".x", "no-wrap-of-nil", "", "no errors.Wrap of an error that is known to be nil")
	}

	// results that can be nil without an error are tested before they are dereferenced
	nn := 0
	for _, f := range fns {
		for _, nd := range core.NilNilDerefs(ds, f, func(c *ssa.Call) []*ssa.Function { return p.CalleesAt(f, c) }) {
			nn++
			r.Violate(id+".x", fmt.Sprintf("%s|nil-result-deref|%s", core.FnKey(f), ds.D(nd.Value).String()), p.Pos(nd.Use.Pos()), "dereference of a call result that "+nd.Why+", without a nil test (nil pointer dereference)", p.WitnessText(nd.Witness)...)
		}
	}
	if nn == 0 {
		r.Hold(id+".x", "no-nil-without-error-deref", "", "no result that can be nil without an error is dereferenced untested")
	}

	// an element removed in place at the loop index is followed by the next index: the element that moved into the gap
	// is never looked at (s = append(s[:i], s[i+1:]...) and then i++ without i--)
	nr := 0
	for _, f := range fns {
		core.EachInstr(f, func(in ssa.Instruction) {
			c, ok := in.(*ssa.Call)
			if !ok || len(c.Call.Args) != 2 {
				return
			}
			if b, ok := c.Call.Value.(*ssa.Builtin); !ok || b.Name() != "append" {
				return
			}
			lo, ok1 := c.Call.Args[0].(*ssa.Slice)
			hi, ok2 := c.Call.Args[1].(*ssa.Slice)
			if !ok1 || !ok2 || lo.Low != nil || lo.High == nil || hi.High != nil || hi.Low == nil {
				return
			}
			i := lo.High
			nx, ok := hi.Low.(*ssa.BinOp)
			if !ok || nx.Op != token.ADD || nx.X != i || !core.IsIntConst(nx.Y, 1) {
				return
			}
			// the loop variable behind i, and the instruction that advances it
			var phi *ssa.Phi
			var advance ssa.Instruction
			switch x := i.(type) {
			case *ssa.Phi: // for i := 0; …; i++
				for _, e := range x.Edges {
					if b, ok := e.(*ssa.BinOp); ok && b.Op == token.ADD && b.X == ssa.Value(x) && core.IsIntConst(b.Y, 1) {
						phi, advance = x, b
					}
				}
			case *ssa.BinOp: // for i := range s
				if ph, ok := x.X.(*ssa.Phi); ok && x.Op == token.ADD && ph.Comment == "rangeindex" {
					phi, advance = ph, x
				}
			}
			if phi == nil {
				return
			}
			w := core.PathQuery{Fn: f, From: in, Target: func(x ssa.Instruction) bool { return x == advance }}.Find()
			if w != nil {
				nr++
				r.Violate(id+".x", fmt.Sprintf("%s|remove-while-iterating#%d", core.FnKey(f), nr), p.Pos(c.Pos()), "the element at the loop index is removed in place and the loop then moves on to the next index: the element that slid into the gap is never examined (two offenders in a row: the second one stays)", p.WitnessText(w)...)
			}
		})
	}
	if nr == 0 {
		r.Hold(id+".x", "no-remove-while-iterating", "", "no in-place removal at the loop index that is followed by the next index")
	}

	// an error that is only logged does not make the result usable: after `v, err := f()` a dereference of v is not
	// reachable from the branch on which err is non-nil (the dropped `else` / missing return)
	nf := 0
	for _, f := range fns {
		core.EachInstr(f, func(in ssa.Instruction) {
			call, ok := in.(*ssa.Call)
			if !ok {
				return
			}
			sig := call.Call.Signature()
			n := sig.Results().Len()
			if n < 2 || !core.IsErrorType(sig.Results().At(n-1).Type()) {
				return
			}
			errEx := core.ExtractOf(call, n-1)
			if errEx == nil {
				return
			}
			for idx := 0; idx < n-1; idx++ {
				switch sig.Results().At(idx).Type().Underlying().(type) {
				case *types.Pointer, *types.Interface:
				default:
					continue
				}
				v := core.ExtractOf(call, idx)
				if v == nil || v.Referrers() == nil {
					continue
				}
				est := guardEdges(ds, f, core.NonNilGuard(ds, v))
				for _, b := range f.Blocks {
					iff, isIf := b.Instrs[len(b.Instrs)-1].(*ssa.If)
					if !isIf {
						continue
					}
					c := core.DecodeCond(ds, iff)
					s := core.ErrNilSucc(c, errEx)
					if s < 0 {
						continue
					}
					failed := 1 - s
					for _, use := range *v.Referrers() {
						if !core.IsDerefUse(v, use) {
							continue
						}
						w := core.PathQuery{Fn: f, StartEdge: &[2]*ssa.BasicBlock{b, b.Succs[failed]}, Target: func(x ssa.Instruction) bool { return x == use }, Edge: func(bb *ssa.BasicBlock, succ int) bool {
							if e, ok := est[bb]; ok && e == succ {
								return false
							}
							return bb.Succs[succ] != call.Block() // the call executed again (a retry loop) gives a new result
						}}.Find()
						if w != nil {
							nf++
							r.Violate(id+".x", fmt.Sprintf("%s|result-used-after-error|%s", core.FnKey(f), ds.D(v).String()), p.Pos(use.Pos()), "the result of "+core.CalleeName(&call.Call)+" is dereferenced on a path that continues after its error was found non-nil (the error is logged, not left): by contract the result is nil there, so the failure becomes a crash", p.WitnessText(w)...)
							return
						}
					}
				}
			}
		})
	}
	if nf == 0 {
		r.Hold(id+".x", "no-result-used-after-error", "", "no dereference of a call's result is reachable from the branch on which its error is non-nil")
	}

	// units: a slot count is not an epoch count — a value of one type is never re-typed as the other (the conversion
	// goes through the chain-time service or through slotsPerEpoch); and a ratio is not computed in integers and
	// converted afterwards (float64(a/b) is 0 or 1 for a <= b)
	nu := 0
	for _, f := range fns {
		core.EachInstr(f, func(in ssa.Instruction) {
			var from, to types.Type
			var x ssa.Value
			switch c := in.(type) {
			case *ssa.ChangeType:
				from, to, x = c.X.Type(), c.Type(), c.X
			case *ssa.Convert:
				from, to, x = c.X.Type(), c.Type(), c.X
			default:
				return
			}
			fs, ts := from.String(), to.String()
			isEpoch := func(s string) bool { return strings.HasSuffix(s, "phase0.Epoch") }
			isSlot := func(s string) bool { return strings.HasSuffix(s, "phase0.Slot") }
			if (isEpoch(fs) && isSlot(ts)) || (isSlot(fs) && isEpoch(ts)) {
				scaled := false // slot/slotsPerEpoch re-typed as an epoch, epoch*slotsPerEpoch as a slot: the conversion itself
				if b, ok := x.(*ssa.BinOp); ok && (b.Op == token.QUO || b.Op == token.MUL) {
					scaled = true
				}
				if _, isConst := x.(*ssa.Const); !isConst && !scaled {
					nu++
					r.Violate(id+".x", fmt.Sprintf("%s|unit-cast#%d", core.FnKey(f), nu), p.Pos(in.Pos()), "a value of type "+fs+" is re-typed as "+ts+" ("+ds.D(x).String()+"): an epoch number used as a slot number (or the reverse) is off by the factor slots-per-epoch")
				}
			}
			if tb, ok := to.Underlying().(*types.Basic); ok && tb.Info()&types.IsFloat != 0 {
				if q, ok := x.(*ssa.BinOp); ok && q.Op == token.QUO {
					if qb, ok := q.Type().Underlying().(*types.Basic); ok && qb.Info()&types.IsInteger != 0 {
						if _, constDiv := q.Y.(*ssa.Const); !constDiv {
							nu++
							r.Violate(id+".x", fmt.Sprintf("%s|integer-ratio#%d", core.FnKey(f), nu), p.Pos(in.Pos()), "the ratio "+ds.D(q).String()+" is computed in integers and converted to a floating-point number afterwards: every ratio below one becomes 0, so the values it is meant to rank are all equal")
						}
					}
				}
			}
		})
	}
	if nu == 0 {
		r.Hold(id+".x", "no-unit-cast-no-integer-ratio", "", "no epoch/slot re-typing and no integer ratio converted to floating point")
	}

	// data handed in by the caller is not reordered in place: sort.* / slices.Sort* of a slice parameter (or a plain
	// copy of the slice header) changes the caller's parallel arrays
	ns := 0
	for _, f := range fns {
		for _, ci := range core.Calls(f, func(c *ssa.CallCommon) bool {
			n := core.CalleeName(c)
			return strings.HasPrefix(n, "sort.") || strings.HasPrefix(n, "slices.Sort") || strings.HasPrefix(n, "slices.Reverse")
		}) {
			if len(ci.Common().Args) == 0 {
				continue
			}
			a := ci.Common().Args[0]
			for k := 0; k < 4; k++ {
				switch y := a.(type) {
				case *ssa.MakeInterface:
					a = y.X
				case *ssa.ChangeType:
					a = y.X
				case *ssa.Slice:
					a = y.X
				}
			}
			if prm := passedParameter(a); prm != nil {
				sl, isSlice := prm.Type().Underlying().(*types.Slice)
				// a list of self-describing records (pointers to structs) is not one of several parallel arrays
				if isSlice && a != ssa.Value(prm) {
					if pt, ok := sl.Elem().Underlying().(*types.Pointer); ok {
						if _, isStruct := pt.Elem().Underlying().(*types.Struct); isStruct {
							isSlice = false
						}
					}
				}
				if isSlice {
					ns++
					r.Violate(id+".x", fmt.Sprintf("%s|sorts-parameter|%s", core.FnKey(f), prm.Name()), p.Pos(ci.Pos()), "the slice parameter "+prm.Name()+" is sorted in place: the caller's array — one of several parallel per-validator arrays — is reordered, so entry i no longer belongs to validator i")
				}
			}
			// … nor is ONE of several slices that were filled side by side (appended to in the same block, one element
			// each per trip) sorted on its own: entry i of the sorted slice no longer belongs to entry i of the others
			if _, isSlice := a.Type().Underlying().(*types.Slice); isSlice {
				var mine []*ssa.Call
				partners := map[string]bool{}
				core.EachInstr(f, func(in ssa.Instruction) {
					c, ok := in.(*ssa.Call)
					if !ok {
						return
					}
					if b, ok := c.Call.Value.(*ssa.Builtin); !ok || b.Name() != "append" || len(c.Call.Args) == 0 {
						return
					}
					if descendsFromSameSlice(a, c) {
						mine = append(mine, c)
					}
				})
				for _, m := range mine {
					for _, in := range m.Block().Instrs {
						c, ok := in.(*ssa.Call)
						if !ok || c == m {
							continue
						}
						if b, ok := c.Call.Value.(*ssa.Builtin); !ok || b.Name() != "append" || len(c.Call.Args) == 0 {
							continue
						}
						if descendsFromSameSlice(a, c) {
							continue
						}
						// the partner is still in use after the sort
						name := ""
						if phi, ok := c.Call.Args[0].(*ssa.Phi); ok {
							name = phi.Comment
						}
						if ld, ok := c.Call.Args[0].(*ssa.UnOp); ok {
							if al, ok := ld.X.(*ssa.Alloc); ok {
								name = al.Comment
							}
						}
						if name == "" {
							name = core.SourceName(c)
						}
						if name != "" {
							partners[name] = true
						}
					}
				}
				if len(partners) > 0 {
					var names []string
					for n := range partners {
						names = append(names, n)
					}
					sort.Strings(names)
					ns++
					r.Violate(id+".x", fmt.Sprintf("%s|sorts-one-of-parallel-slices|%s", core.FnKey(f), strings.Join(names, ",")), p.Pos(ci.Pos()), "this slice was filled side by side with "+strings.Join(names, ", ")+" (one element each per trip of the same loop) and is sorted on its own: entry i of it no longer belongs to entry i of the others")
				}
			}
		}
	}
	if ns == 0 {
		r.Hold(id+".x", "no-parameter-sorted-in-place", "", "no slice parameter is sorted in place")
	}

	// wait groups balance; fan-outs do not run under a fail-fast (errgroup) context; coalesced requests are keyed by the request
	checkWaitGroupBalance(p, r, id+".x", fns, "the caller blocks for ever (and keeps what it holds)")
	for _, f := range fns {
		for _, ci := range core.Calls(f, func(c *ssa.CallCommon) bool { return strings.HasSuffix(core.CalleeName(c), "errgroup.WithContext") }) {
			if call, ok := ci.(*ssa.Call); ok {
				if ex := core.ExtractOf(call, 1); ex != nil && ex.Referrers() != nil && len(*ex.Referrers()) > 0 {
					r.Violate(id+".x", core.FnKey(f)+"|fail-fast-context", p.Pos(ci.Pos()), "the members of this fan-out run under the context of errgroup.WithContext, which is cancelled as soon as one of them fails: one member's failure aborts the work of the others")
				}
			}
		}
		for _, ci := range core.Calls(f, func(c *ssa.CallCommon) bool {
			callee := c.StaticCallee()
			return callee != nil && callee.Signature.Recv() != nil && strings.HasSuffix(callee.Signature.Recv().Type().String(), "singleflight.Group") && (callee.Name() == "Do" || callee.Name() == "DoChan")
		}) {
			kd := ds.D(ci.Common().Args[1])
			// the key must be built from everything the shared function's result depends on; decided here: it is built from
			// something of the request at all
			if !kd.Any(func(x *core.VD) bool { return x.Kind == "param" }) {
				r.Violate(id+".x", core.FnKey(f)+"|coalescing-key", p.Pos(ci.Pos()), "requests are coalesced under the key "+kd.String()+", which does not identify what is asked for: a caller receives the in-flight answer to another request")
			}
		}
	}

	// a guard that lets a collection through to be submitted / signed / sent asks whether it is empty, not whether it
	// has more than some number of elements: `len(x) > 1` before submit(x) drops the single-element case
	for _, f := range fns {
		for _, b := range f.Blocks {
			iff, ok := b.Instrs[len(b.Instrs)-1].(*ssa.If)
			if !ok {
				continue
			}
			cmp, ok := iff.Cond.(*ssa.BinOp)
			if !ok {
				continue
			}
			var coll ssa.Value
			var k *ssa.Const
			op := cmp.Op
			lenArg := func(v ssa.Value) ssa.Value {
				if call, ok := v.(*ssa.Call); ok {
					if bi, ok := call.Call.Value.(*ssa.Builtin); ok && bi.Name() == "len" {
						return call.Call.Args[0]
					}
				}
				return nil
			}
			if a := lenArg(cmp.X); a != nil {
				coll = a
				k, _ = cmp.Y.(*ssa.Const)
			} else if a := lenArg(cmp.Y); a != nil {
				coll = a
				k, _ = cmp.X.(*ssa.Const)
				switch op {
				case token.GTR:
					op = token.LSS
				case token.GEQ:
					op = token.LEQ
				case token.LSS:
					op = token.GTR
				case token.LEQ:
					op = token.GEQ
				}
			}
			if coll == nil || k == nil || k.Value == nil || k.Value.Kind() != constant.Int {
				continue
			}
			kv := k.Int64()
			// the edge on which the collection is "large enough", and the smallest length that takes it
			edge, least := -1, int64(0)
			switch op {
			case token.GTR:
				edge, least = 0, kv+1
			case token.GEQ:
				edge, least = 0, kv
			case token.LSS:
				edge, least = 1, kv
			case token.LEQ:
				edge, least = 1, kv+1
			default:
				continue
			}
			if least <= 1 {
				continue
			}
			arm := b.Succs[edge]
			if len(arm.Preds) != 1 {
				continue
			}
			core.EachInstr(f, func(in ssa.Instruction) {
				ci, ok := in.(ssa.CallInstruction)
				if !ok || !arm.Dominates(in.Block()) {
					return
				}
				name := strings.ToLower(core.CalleeName(ci.Common()))
				if i := strings.LastIndexAny(name, "./"); i >= 0 {
					name = name[i+1:]
				}
				if !(strings.Contains(name, "submit") || strings.Contains(name, "sign") || strings.Contains(name, "send") || strings.Contains(name, "publish")) {
					return
				}
				for _, a := range ci.Common().Args {
					if a == coll {
						r.Violate(id+".x", core.FnKey(f)+"|emptiness-guard|"+core.CalleeName(ci.Common()), p.Pos(core.IfPos(iff)), fmt.Sprintf("the collection handed to %s is let through only when it holds at least %d elements: a collection of fewer (non-zero) elements is silently dropped", core.CalleeName(ci.Common()), least))
					}
				}
			})
		}
	}

	// a quotient of two run-time quantities is zero whenever the dividend is the smaller one: it is not used as a
	// divisor or modulus as it stands (the clamp `if m < 1 { m = 1 }` / max(m, 1) makes it a phi or a call)
	for _, f := range fns {
		core.EachInstr(f, func(in ssa.Instruction) {
			bo, ok := in.(*ssa.BinOp)
			if !ok || bo.Op != token.REM {
				return
			}
			if b, ok := bo.Type().Underlying().(*types.Basic); !ok || b.Info()&types.IsInteger == 0 {
				return
			}
			dv := bo.Y
			for {
				if cv, ok := dv.(*ssa.Convert); ok {
					dv = cv.X
					continue
				}
				if ct, ok := dv.(*ssa.ChangeType); ok {
					dv = ct.X
					continue
				}
				break
			}
			inner, ok := dv.(*ssa.BinOp)
			if !ok || inner.Op != token.QUO {
				return
			}
			if _, isConst := inner.Y.(*ssa.Const); isConst {
				return
			}
			if ib, ok := inner.Type().Underlying().(*types.Basic); !ok || ib.Info()&types.IsInteger == 0 {
				return
			}
			// a test of the quotient anywhere (if q == 0 { return }) counts as the clamp
			if inner.Referrers() != nil {
				for _, ref := range *inner.Referrers() {
					if c, ok := ref.(*ssa.BinOp); ok {
						switch c.Op {
						case token.EQL, token.NEQ, token.LSS, token.LEQ, token.GTR, token.GEQ:
							return
						}
					}
				}
			}
			r.Violate(id+".x", core.FnKey(f)+"|unclamped-quotient-as-divisor|"+ds.D(inner).String(), p.Pos(bo.Pos()), "the modulus of this % is the integer quotient "+ds.D(inner).String()+" as it stands: it is zero whenever the dividend is smaller than the divisor, and the operation panics (integer divide by zero)")
		})
	}

	// what one request's fan-out reports is collected on a channel of that request: in the strategies no channel kept
	// in a service field is sent to or received from (a late answer to one request would be taken for the next one's)
	for _, f := range fns {
		if !strings.HasPrefix(core.RelPkg(f.Pkg.Pkg.Path()), "strategies/") {
			continue
		}
		fromField := func(ch ssa.Value) (core.FieldID, bool) {
			if ld, ok := ch.(*ssa.UnOp); ok && ld.Op == token.MUL {
				if fid, base, ok := core.FieldOfAddr(ld.X); ok {
					if bt, ok := base.Type().(*types.Pointer); ok {
						if bn, ok := bt.Elem().(*types.Named); ok && bn.Obj().Name() == "Service" {
							return fid, true
						}
					}
				}
			}
			return core.FieldID{}, false
		}
		core.EachInstr(f, func(in ssa.Instruction) {
			var ch ssa.Value
			switch x := in.(type) {
			case *ssa.Send:
				ch = x.Chan
			case *ssa.UnOp:
				if x.Op == token.ARROW {
					ch = x.X
				}
			case *ssa.Select:
				for _, st := range x.States {
					if fid, ok := fromField(st.Chan); ok {
						r.Violate(id+".x", core.FnKey(f)+"|request-channel-in-service-field|"+fid.Name, p.Pos(st.Pos), "the channel "+fid.String()+" on which answers are collected is kept in the service, not made for the request: an answer that arrives after its request has returned is taken for the answer to the next request")
					}
				}
			}
			if ch != nil {
				if fid, ok := fromField(ch); ok {
					r.Violate(id+".x", core.FnKey(f)+"|request-channel-in-service-field|"+fid.Name, p.Pos(in.Pos()), "the channel "+fid.String()+" on which answers are collected is kept in the service, not made for the request: an answer that arrives after its request has returned is taken for the answer to the next request")
				}
			}
		})
	}

	// wiring: every functional option of a package sets a parameters field of its own, from its own argument (two
	// options that set one field: the second silently overrides the first and its own field keeps the default); and
	// the constructor takes a parameters field over into the service field of the same name as it is
	checkWiring(id, p, r, fns)
	checkLanguageSemantics(id, p, r, fns)

	// a closure that is run later (scheduled, or started as a goroutine) from inside a loop does not share a variable
	// that lives outside the loop and is assigned inside it: every closure would see the value of the last iteration
	for _, f := range fns {
		if len(f.Blocks) == 0 {
			continue
		}
		var loops map[*ssa.BasicBlock]map[*ssa.BasicBlock]bool
		core.EachInstr(f, func(in ssa.Instruction) {
			mc, ok := in.(*ssa.MakeClosure)
			if !ok || mc.Referrers() == nil {
				return
			}
			later := false
			refs := append([]ssa.Instruction{}, *mc.Referrers()...)
			for _, ref := range *mc.Referrers() {
				// a function value re-typed to a named function type (a job function)
				if ct, ok := ref.(*ssa.ChangeType); ok && ct.Referrers() != nil {
					refs = append(refs, *ct.Referrers()...)
				}
			}
			for _, ref := range refs {
				switch x := ref.(type) {
				case *ssa.Go:
					later = true
				case *ssa.Call:
					if x.Call.Value == ssa.Value(mc) {
						continue // called on the spot
					}
					n := core.CalleeName(x.Common())
					if strings.Contains(n, "Schedule") || strings.HasSuffix(n, "errgroup.Group.Go") {
						later = true
					}
				}
			}
			if !later {
				return
			}
			if loops == nil {
				loops = naturalLoops(f)
			}
			h := innermostLoop(loops, mc.Block())
			if h == nil {
				// outside any loop: a goroutine started here reads a variable that this function assigns again afterwards,
				// with nothing in between that waits for the goroutine — it sees either value (usually the later one)
				var g *ssa.Go
				for _, ref := range refs {
					if x, ok := ref.(*ssa.Go); ok {
						g = x
					}
				}
				fn, _ := mc.Fn.(*ssa.Function)
				if g == nil || fn == nil {
					return
				}
				for i, bnd := range mc.Bindings {
					al, ok := bnd.(*ssa.Alloc)
					if !ok || al.Referrers() == nil || i >= len(fn.FreeVars) {
						continue
					}
					reads := false
					if fr := fn.FreeVars[i].Referrers(); fr != nil {
						for _, ref := range *fr {
							if u, ok := ref.(*ssa.UnOp); ok && u.Op == token.MUL {
								reads = true
							}
						}
					}
					if !reads {
						continue
					}
					for _, ref := range *al.Referrers() {
						st, ok := ref.(*ssa.Store)
						if !ok || st.Addr != ssa.Value(al) {
							continue
						}
						isSync := func(x ssa.Instruction) bool {
							switch y := x.(type) {
							case *ssa.UnOp:
								return y.Op == token.ARROW
							case *ssa.Select:
								return y.Blocking
							case *ssa.Call:
								return strings.HasSuffix(core.CalleeName(y.Common()), ".Wait")
							}
							return false
						}
						w := core.PathQuery{Fn: f, From: g, Target: func(x ssa.Instruction) bool { return x == ssa.Instruction(st) }, Avoid: isSync}.Find()
						if w != nil {
							r.Violate(id+".x", core.FnKey(f)+"|goroutine-reads-variable-assigned-after-start|"+al.Comment, p.Pos(g.Pos()), "the goroutine started here reads the variable "+al.Comment+", which this function assigns again at "+p.Pos(st.Pos())+" without waiting for the goroutine in between: the goroutine works with whichever value it happens to see (usually the later one)")
							break
						}
					}
				}
				return
			}
			body := loops[h]
			for _, bnd := range mc.Bindings {
				al, ok := bnd.(*ssa.Alloc)
				if !ok || body[al.Block()] || al.Referrers() == nil {
					continue
				}
				for _, ref := range *al.Referrers() {
					if st, ok := ref.(*ssa.Store); ok && st.Addr == ssa.Value(al) && body[st.Block()] {
						at := mc.Pos()
						if !at.IsValid() {
							at = mc.Fn.Pos()
						}
						r.Violate(id+".x", core.FnKey(f)+"|loop-closure-shares-variable|"+al.Comment, p.Pos(at), "the function value created here runs later but reads the variable "+al.Comment+", which is declared outside the loop and assigned in every iteration (at "+p.Pos(st.Pos())+"): all the deferred runs see the value of the last iteration")
						break
					}
				}
			}
		})
	}
}

// imports: rules of sibling properties that decide a clause this property depends on as well (the same code serves
// both). The sibling pack is run and the obligations of the listed rules are taken over under this property's
// id, so that a change that breaks the shared mechanism is reported by every property that relies on it.
var imports = map[string][]string{
	"C03": {"C02.d", "C02.i", "C02.m", "C02.n"},
	"C09": {"C11.i", "C16.i", "C10.n", "C07.l"},
	"C10": {"C12.j", "C11.n", "C11.a"},
	"C11": {"C12.l", "C12.m", "C12.j", "C10.f", "C10.k", "C10.e"},
	"C15": {"C17.i", "C13.c", "C17.h", "C03.t", "C03.v"},
	"C20": {"C02.d", "C05.e", "C12.l", "C18.e", "C02.n", "C07.w"},
	"C05": {"C06.g", "C09.e", "C07.i"},
	"C04": {"C06.g", "C03.j", "C01.f", "C01.g", "C05.k", "C06.e", "C13.f"},
	"C06": {"C05.k", "C14.f", "C15.c"},
	"C12": {"C05.k", "C10.s"},
	"C08": {"C19.8"},
	"C16": {"C11.i"},
	"C07": {"C19.4"},
	"C13": {"C15.j"},
	"C14": {"C03.o", "C03.f", "C06.k"},
}

// RunImports takes over the listed sibling obligations into r (rule id "<this>.y", construct prefixed by the origin).
func RunImports(id string, p *core.Prog, r *core.Report, tier string) {
	want := imports[id]
	if len(want) == 0 {
		return
	}
	byPack := map[string]map[string]bool{}
	for _, w := range want {
		pk := w[:3]
		if byPack[pk] == nil {
			byPack[pk] = map[string]bool{}
		}
		byPack[pk][w] = true
	}
	var pks []string
	for pk := range byPack {
		pks = append(pks, pk)
	}
	sort.Strings(pks)
	for _, pk := range pks {
		sib := packs[pk]
		if sib == nil {
			continue
		}
		tmp := core.NewReport(pk)
		func() {
			defer func() {
				if e := recover(); e != nil {
					r.Undecide(id+".y", "import of "+pk, "", fmt.Sprintf("sibling pack panicked: %v", e))
				}
			}()
			sib.Run(p, tmp, "quick")
		}()
		n := 0
		for _, o := range tmp.Obligations {
			if !byPack[pk][o.Rule] {
				continue
			}
			n++
			construct := "[" + o.Rule + "] " + o.Construct
			switch o.Verdict {
			case core.Holds:
				r.Hold(id+".y", construct, o.Pos, o.Detail)
			case core.Violated:
				r.Violate(id+".y", construct, o.Pos, o.Detail, o.Witness...)
			default:
				r.Undecide(id+".y", construct, o.Pos, o.Detail)
			}
		}
		r.Floor(id+".y obligations taken over from "+pk, n, 1)
	}
}

// checkWiring: see Common.
func checkWiring(id string, p *core.Prog, r *core.Report, fns []*ssa.Function) {
	type setter struct {
		opt *ssa.Function
		pos token.Pos
	}
	byPkgField := map[string]map[string][]setter{}
	nOpt := 0
	for _, f := range fns {
		if f.Parent() == nil || !strings.HasPrefix(f.Parent().Name(), "With") || f.Parent().Signature.Recv() != nil {
			continue
		}
		// the closure of an option: one parameter, a pointer to the package's parameters struct
		if len(f.Params) != 1 {
			continue
		}
		pt, ok := f.Params[0].Type().(*types.Pointer)
		if !ok {
			continue
		}
		nt, ok := pt.Elem().(*types.Named)
		if !ok || nt.Obj().Name() != "parameters" {
			continue
		}
		nOpt++
		pkg := core.RelPkg(f.Pkg.Pkg.Path())
		if byPkgField[pkg] == nil {
			byPkgField[pkg] = map[string][]setter{}
		}
		core.EachInstr(f, func(in ssa.Instruction) {
			st, ok := in.(*ssa.Store)
			if !ok {
				return
			}
			fid, base, ok := core.FieldOfAddr(st.Addr)
			if !ok || base != ssa.Value(f.Params[0]) {
				return
			}
			byPkgField[pkg][fid.Name] = append(byPkgField[pkg][fid.Name], setter{f.Parent(), st.Pos()})
		})
	}
	nDup := 0
	var pkgs []string
	for k := range byPkgField {
		pkgs = append(pkgs, k)
	}
	sort.Strings(pkgs)
	for _, pkg := range pkgs {
		var flds []string
		for k := range byPkgField[pkg] {
			flds = append(flds, k)
		}
		sort.Strings(flds)
		for _, fld := range flds {
			ss := byPkgField[pkg][fld]
			opts := map[*ssa.Function]bool{}
			for _, s := range ss {
				opts[s.opt] = true
			}
			if len(opts) < 2 {
				continue
			}
			var names []string
			for o := range opts {
				names = append(names, o.Name())
			}
			sort.Strings(names)
			nDup++
			r.Violate(id+".x", pkg+"|option-field-set-twice|"+fld, p.Pos(ss[len(ss)-1].pos), "the options "+strings.Join(names, " and ")+" of "+pkg+" both set the parameters field "+fld+": whichever is applied last overrides the other, and the field one of them is named after keeps its default")
		}
	}
	if nOpt > 0 && nDup == 0 {
		r.Hold(id+".x", "options-set-distinct-fields", "", fmt.Sprintf("%d functional options in the property's packages, no parameters field set by two of them", nOpt))
	}

	// constructors
	nCopy := 0
	for _, f := range fns {
		if f.Name() != "New" || f.Parent() != nil || f.Signature.Recv() != nil {
			continue
		}
		for _, sl := range core.StructLits(f, "Service") {
			if sl.Alloc.Type().(*types.Pointer).Elem().(*types.Named).Obj().Pkg() != f.Pkg.Pkg {
				continue
			}
			var flds []string
			for k := range sl.Fields {
				flds = append(flds, k)
			}
			sort.Strings(flds)
			dsW := core.NewDescriber()
			strip := func(v ssa.Value) ssa.Value {
				for {
					switch x := v.(type) {
					case *ssa.ChangeInterface:
						v = x.X
						continue
					case *ssa.ChangeType:
						v = x.X
						continue
					case *ssa.MakeInterface:
						v = x.X
						continue
					case *ssa.Convert:
						v = x.X
						continue
					}
					return v
				}
			}
			// the load of parameters.<name>, if v is one
			paramField := func(v ssa.Value) (string, bool) {
				ld, ok := v.(*ssa.UnOp)
				if !ok || ld.Op != token.MUL {
					return "", false
				}
				fid, base, ok := core.FieldOfAddr(ld.X)
				if !ok {
					return "", false
				}
				if bt, ok := base.Type().(*types.Pointer); ok {
					if bn, ok := bt.Elem().(*types.Named); ok && bn.Obj().Name() == "parameters" {
						return fid.Name, true
					}
				}
				return "", false
			}
			// the fields of the parameters struct, with their types
			ptypes := map[string]types.Type{}
			core.EachInstr(f, func(in ssa.Instruction) {
				if ld, ok := in.(*ssa.UnOp); ok {
					if n, ok := paramField(ld); ok {
						ptypes[n] = ld.Type()
					}
				}
			})
			for _, fld := range flds {
				pt, hasField := ptypes[fld]
				if !hasField {
					continue
				}
				v := sl.Fields[fld]
				plain, altered := false, ""
				for _, lf := range core.PhiLeaves(v, sl.Stores[fld]) {
					lv := strip(lf.V)
					if n, ok := paramField(lv); ok && n == fld {
						plain = true
						continue
					}
					if _, isConst := lv.(*ssa.Const); isConst {
						continue // a default
					}
					// computed from a setting?  (operands, a few levels deep)
					usesSetting := false
					seenV := map[ssa.Value]bool{}
					var walk func(x ssa.Value, depth int)
					walk = func(x ssa.Value, depth int) {
						if x == nil || seenV[x] || depth > 6 || usesSetting {
							return
						}
						seenV[x] = true
						if _, ok := paramField(x); ok {
							usesSetting = true
							return
						}
						if in, ok := x.(ssa.Instruction); ok {
							for _, op := range in.Operands(nil) {
								if op != nil && *op != nil {
									walk(*op, depth+1)
								}
							}
						}
					}
					walk(lv, 0)
					if usesSetting {
						altered = dsW.D(lv).String()
					}
				}
				if !plain && !types.Identical(pt, strip(v).Type()) {
					// an object of another type built from the setting (parsed endpoints, compiled expressions)
					continue
				}
				nCopy++
				if altered != "" || !plain {
					what := altered
					if what == "" {
						what = dsW.D(v).String()
					}
					r.Violate(id+".x", core.FnKey(f)+"|constructor-takes-parameter-as-is|"+fld, p.Pos(sl.Stores[fld].Pos()), "the service field "+fld+" is not the parameters field of the same name as it was configured (or a default), but is computed from other settings ("+what+"): the configured setting is altered on the way into the service")
				}
			}
		}
	}
	if nCopy > 0 {
		r.Count("service fields taken over from same-named parameters", nCopy)
	}
}

// descendsFromSameSlice: the append call c extends the same slice variable that v is a state of (v and c are linked
// through phis and appends).
func descendsFromSameSlice(v ssa.Value, c *ssa.Call) bool {
	roots := func(x ssa.Value) map[ssa.Value]bool {
		out := map[ssa.Value]bool{}
		seen := map[ssa.Value]bool{}
		var walk func(y ssa.Value, depth int)
		walk = func(y ssa.Value, depth int) {
			if y == nil || seen[y] || depth > 16 {
				return
			}
			seen[y] = true
			switch z := y.(type) {
			case *ssa.Phi:
				for _, e := range z.Edges {
					walk(e, depth+1)
				}
			case *ssa.UnOp:
				// a variable kept in a cell (captured by a closure): the cell is the root
				if al, ok := z.X.(*ssa.Alloc); ok && z.Op == token.MUL {
					out[al] = true
					return
				}
				out[y] = true
			case *ssa.Call:
				if b, ok := z.Call.Value.(*ssa.Builtin); ok && b.Name() == "append" && len(z.Call.Args) > 0 {
					walk(z.Call.Args[0], depth+1)
					return
				}
				out[y] = true
			default:
				out[y] = true
			}
		}
		walk(x, 0)
		return out
	}
	rv, rc := roots(v), roots(c)
	for k := range rv {
		if _, isConst := k.(*ssa.Const); isConst {
			continue
		}
		if rc[k] {
			return true
		}
	}
	return false
}
