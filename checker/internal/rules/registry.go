// Package rules holds one rule pack per property.
package rules

import (
	"sort"

	"vouchcheck/internal/core"
)

// Pack is a rule pack.
type Pack struct {
	ID          string
	Run         func(p *core.Prog, r *core.Report, tier string)
	Expl        string // clauses decided / not decided
	Rule        string // how obligations are enumerated
	Assumptions []string
	Technique   string // a few words naming the deciding method
}

var packs = map[string]*Pack{}

func register(p *Pack) { packs[p.ID] = p }

// Get returns the pack for a property id.
func Get(id string) *Pack { return packs[id] }

// IDs lists registered property ids.
func IDs() []string {
	var out []string
	for k := range packs {
		out = append(out, k)
	}
	sort.Strings(out)
	return out
}
