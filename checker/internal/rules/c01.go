package rules

import (
	"fmt"
	"go/constant"
	"go/token"
	"go/types"
	"strings"

	"golang.org/x/tools/go/ssa"

	"vouchcheck/internal/core"
)

func init() {
	register(&Pack{
		ID:  "C01",
		Run: runC01,
		Expl: "Decides structural necessary conditions of 'at most one attestation per validator and epoch, only for the duty epoch': " +
			"(a) who-may-sign: the attestation signer is called only from services/attester/standard (and inside the signer itself); " +
			"(b) the accounts handed to the signer derive from the validators left by the already-attested filter, and the signer is unreachable without passing the filter; " +
			"(c) the filter's membership test and its mark are one critical section of attestedMu (no release in between) and the mark is on the not-found edge; " +
			"(d) the filter (mark) precedes every call to the attestation-data provider, the signer and the submitter; " +
			"(e) marks are withdrawn only by the housekeeping delete of epoch-c (c >= 2) under a guard epoch > c-1; no other delete or replacement of entries exists; " +
			"(f) the signer is reachable only through guards establishing data.Slot == duty.Slot(), source epoch <= target epoch, and target epoch both not above and not below the duty epoch; a helper's nil-error returns are checked against the same guards (errors.Wrap of a nil error counts as nil); " +
			"(g) the slot signed is duty.Slot(); (h) the best/majority attestation-data strategies forward a response only under target != nil and target epoch == epoch of the requested slot. " +
			"Added with the third seeding round: (i) no path leads from one signature request of a run to another (no retry or per-account re-signing after a failed batch). Added with the fourth seeding round: (j) the account managers' by-index lookups report an account only for a requested index (shared with C13.f). Added with the fifth seeding round: (k) the accounts put into the signature request are the values of the validating-accounts map, one per validator, not a walk over the duty's index list. Added with the sixth seeding round and the false-alarm regression: (x, extended) no in-place removal at the loop index followed by the next index; the cross-cutting rules below. Added with the seventh seeding round: (l) every access to the record of what was attested is made under its mutex. Added with the eighth seeding round (changes outside the anchor files): (j, extended) every non-nil result of a by-index account query is the map the query filled itself; (m) in the signer no attestation signing request follows on the failure edge of another. Added with the ninth (adversarial) seeding round: (j, extended) the exported by-index wrappers hand on the answer of a by-index query only. Added with the tenth seeding round: (f, restated) the bound of the target-epoch guards is the duty epoch only (no clock reading, no max/min). Added with the eleventh seeding round: (n) the store of an epoch's set lies in the critical section that found the epoch without one. NOT decided: that the in-memory set survives restarts or a second instance; that the account provider returns only requested indices; the signer's own slashing protection; interleavings beyond the atomic region.",
		Technique:   "call-graph who-may-call, SSA guard/edge-deletion queries with relation sets, guard-helper summaries through error-nilness analysis, lock-set dataflow, dominance by path deletion",
		Rule:        "one obligation per call site (a), per signer argument (b,g), per map operation on the attested set (c,e), per guarded effect (d,f,h); non-trivial = the construct exists and a path/provenance query was evaluated",
		Assumptions: []string{"the chain-time service's SlotToEpoch and the division slot/slotsPerEpoch denote the same epoch (numeric agreement is outside this family)"},
	})
}

// isAttDataRoot: the root of a field path is a value of type *phase0.AttestationData.
func isAttDataRoot(d *core.VD) bool {
	if d == nil || d.Val == nil {
		return false
	}
	return strings.HasSuffix(strings.TrimPrefix(types.TypeString(d.Val.Type(), nil), "*"), "spec/phase0.AttestationData")
}

func attField(d *core.VD, path ...string) bool {
	// the last len(path) selections must be path, applied to a value of type *phase0.AttestationData
	cur := d
	for i := len(path) - 1; i >= 0; i-- {
		if cur == nil || cur.Kind != "field" || cur.Name != path[i] {
			return false
		}
		cur = cur.Args[0]
	}
	if len(path) == 0 {
		return isAttDataRoot(d)
	}
	// cur is the attestation data value: either typed as such, or (field address chains) the parent selection yields that type
	if isAttDataRoot(cur) {
		return true
	}
	// d.Args[0] chains are addresses: look at the static type of the first selection's operand
	first := d
	for i := 0; i < len(path)-1; i++ {
		first = first.Args[0]
	}
	switch x := first.Val.(type) {
	case *ssa.FieldAddr:
		return strings.HasSuffix(strings.TrimPrefix(types.TypeString(x.X.Type(), nil), "*"), "spec/phase0.AttestationData")
	case *ssa.Field:
		return strings.HasSuffix(strings.TrimPrefix(types.TypeString(x.X.Type(), nil), "*"), "spec/phase0.AttestationData")
	case *ssa.UnOp:
		if fa, ok := x.X.(*ssa.FieldAddr); ok {
			return strings.HasSuffix(strings.TrimPrefix(types.TypeString(fa.X.Type(), nil), "*"), "spec/phase0.AttestationData")
		}
	}
	return false
}

// dutyEpochOnly: the epoch of the duty's slot and nothing else — a bound widened by the clock (max(dutyEpoch,
// CurrentEpoch())) lets a late run sign for an epoch the duty is not for.
func dutyEpochOnly(d *core.VD) bool {
	if !mentionsDutyEpoch(d) {
		return false
	}
	widened := d.MentionsCall("CurrentEpoch") || d.MentionsCall("CurrentSlot") || d.MentionsCall("time.Now") || d.Any(func(x *core.VD) bool {
		return x.Kind == "call" && (strings.HasSuffix(x.Name, "builtin:max") || strings.HasSuffix(x.Name, "builtin:min") || x.Name == "max" || x.Name == "min")
	})
	return !widened
}

func mentionsDutyEpoch(d *core.VD) bool {
	if !d.MentionsCall("services/attester.Duty.Slot") {
		return false
	}
	return d.MentionsCall("SlotToEpoch") || d.MentionsField("slotsPerEpoch")
}

// relGuard builds a guard established on the edge where rel(X,Y) is in accept, X matching mx and Y matching my (either order).
func relGuard(mx, my func(*core.VD) bool, accept map[string]bool) core.GuardSpec {
	return func(c core.Cond) int {
		if c.Op == "" {
			return -1
		}
		flip := false
		switch {
		case mx(c.X) && my(c.Y):
		case mx(c.Y) && my(c.X):
			flip = true
		default:
			return -1
		}
		for s := 0; s < 2; s++ {
			rel := c.RelOnEdge(s)
			if flip {
				rel = core.FlipRel(rel)
			}
			if accept[rel] {
				return s
			}
		}
		return -1
	}
}

type namedGuard struct {
	name string
	g    core.GuardSpec
	what string
}

func attestationGuards() []namedGuard {
	slotX := func(d *core.VD) bool { return attField(d, "Slot") }
	slotY := func(d *core.VD) bool { return d.IsCall("services/attester.Duty.Slot") }
	srcE := func(d *core.VD) bool { return attField(d, "Source", "Epoch") }
	tgtE := func(d *core.VD) bool { return attField(d, "Target", "Epoch") }
	return []namedGuard{
		{"slot-equals-duty-slot", relGuard(slotX, slotY, map[string]bool{"==": true}), "data.Slot == duty.Slot()"},
		// comparing the source with the duty epoch is equivalent, because target == duty epoch is required separately
		{"source-not-above-target", relGuard(srcE, func(d *core.VD) bool { return tgtE(d) || mentionsDutyEpoch(d) }, map[string]bool{"<=": true, "<": true, "==": true}), "data.Source.Epoch <= data.Target.Epoch"},
		{"target-not-above-duty-epoch", relGuard(tgtE, dutyEpochOnly, map[string]bool{"<=": true, "<": true, "==": true}), "data.Target.Epoch <= epoch(duty.Slot())"},
		{"target-not-below-duty-epoch", relGuard(tgtE, dutyEpochOnly, map[string]bool{">=": true, ">": true, "==": true}), "data.Target.Epoch >= epoch(duty.Slot())"},
	}
}

func runC01(p *core.Prog, r *core.Report, tier string) {
	ds := core.NewDescriber()
	la := core.NewLockAnalysis(p)

	// ---- (a) who may sign ----
	nSites := 0
	var signSite ssa.CallInstruction
	var signFn *ssa.Function
	for _, f := range p.SrcFuncs() {
		for _, ci := range core.CallsNamed(f, "SignBeaconAttestations", "SignBeaconAttestation") {
			rel := core.RelPkg(f.Pkg.Pkg.Path())
			nSites++
			ok := rel == attRel || rel == "services/signer/standard"
			r.Check(ok, "C01.a", "who-may-sign|"+core.FnKey(f), p.Pos(ci.Pos()), "attestation signer called from "+rel, "attestation signer is called from "+rel+": only services/attester/standard may request attestation signatures")
			if rel == attRel && ci.Common().IsInvoke() && core.MethodName(ci.Common()) == "SignBeaconAttestations" {
				signSite, signFn = ci, f
			}
		}
	}
	r.Count("signer call sites", nSites)
	if signSite == nil {
		r.Undecide("C01.anchor", "attester/standard sign call", "", "no call of SignBeaconAttestations found in services/attester/standard")
		return
	}

	// ---- (i) one signature request per run: no path leads from one request to another ----
	{
		reaches := map[*ssa.Function]bool{}
		for changed := true; changed; {
			changed = false
			for _, f := range p.FuncsIn(attRel) {
				if reaches[f] {
					continue
				}
				for _, wf := range core.WithClosures(f) {
					core.EachInstr(wf, func(in ssa.Instruction) {
						ci, ok := in.(ssa.CallInstruction)
						if !ok {
							return
						}
						if ci.Common().IsInvoke() && strings.HasPrefix(core.MethodName(ci.Common()), "SignBeaconAttestation") {
							reaches[f] = true
						}
						if c := ci.Common().StaticCallee(); c != nil && reaches[c] {
							reaches[f] = true
						}
					})
				}
				if reaches[f] {
					changed = true
				}
			}
		}
		nReq := 0
		for _, f := range p.FuncsIn(attRel) {
			isReq := func(in ssa.Instruction) bool {
				ci, ok := in.(ssa.CallInstruction)
				if !ok {
					return false
				}
				if ci.Common().IsInvoke() && strings.HasPrefix(core.MethodName(ci.Common()), "SignBeaconAttestation") {
					return true
				}
				c := ci.Common().StaticCallee()
				return c != nil && c != f && reaches[c]
			}
			var sites []ssa.Instruction
			core.EachInstr(f, func(in ssa.Instruction) {
				if isReq(in) {
					sites = append(sites, in)
				}
			})
			for i, site := range sites {
				nReq++
				w := core.PathQuery{Fn: f, From: site, Target: isReq}.Find()
				r.Check(w == nil, "C01.i", fmt.Sprintf("%s|one-request#%d", core.FnKey(f), i+1), p.Pos(site.Pos()), "no second signature request can follow this one in the same run", "a second signature request for the same duty can follow this one (retry / per-account re-signing): the signer is all-or-nothing towards its caller but may already have signed, so validators are asked to sign twice in the epoch", p.WitnessText(w)...)
			}
		}
		r.Floor("C01.i signature request sites", nReq, 1)
	}

	// ---- (j) the accounts asked to sign are the ones the filter let through: the account managers' by-index lookups
	// report an account only for a requested index (an empty request yields nothing, not everything) ----
	{
		nBy := 0
		for _, rel := range []string{"services/accountmanager/dirk", "services/accountmanager/wallet"} {
			for _, f := range p.FuncsIn(rel) {
				if !strings.Contains(f.Name(), "ByIndex") {
					continue
				}
				if f.Parent() == nil {
					checkOwnFilteredResult(p, r, ds, "C01.j", core.RelPkg(f.Pkg.Pkg.Path())+"|"+core.FnKey(f), f)
				}
				core.EachInstr(f, func(in ssa.Instruction) {
					mu, ok := in.(*ssa.MapUpdate)
					if !ok {
						return
					}
					mt, ok := mu.Map.Type().Underlying().(*types.Map)
					if !ok || !strings.HasSuffix(mt.Key().String(), "phase0.ValidatorIndex") || !strings.HasSuffix(mt.Elem().String(), ".Account") {
						return
					}
					nBy++
					checkRequestedOnly(p, r, ds, "C01.j", core.RelPkg(f.Pkg.Pkg.Path())+"|"+core.FnKey(f)+"|result-entry", f, mu)
				})
			}
		}
		r.Floor("C01.j by-index account results", nBy, 2)
	}

	// ---- (m) no retry below the attester either: in the signer, once a request to sign attestations has been made of
	// an account (or of the multi-signer for the whole batch) and has failed, no further such request follows — the
	// first one may have been carried out although its answer was lost ----
	{
		nSR := 0
		for _, f := range p.FuncsIn("services/signer/standard") {
			isAttSign := func(in ssa.Instruction) bool {
				ci, ok := in.(ssa.CallInstruction)
				if !ok {
					return false
				}
				return strings.HasPrefix(core.MethodName(ci.Common()), "SignBeaconAttestation")
			}
			var sites []*ssa.Call
			core.EachInstr(f, func(in ssa.Instruction) {
				if c, ok := in.(*ssa.Call); ok && isAttSign(in) {
					sites = append(sites, c)
				}
			})
			for i, site := range sites {
				errV := core.ExtractOf(site, site.Type().(*types.Tuple).Len()-1)
				if errV == nil {
					continue
				}
				nSR++
				var wit []ssa.Instruction
				for _, b := range f.Blocks {
					iff, ok := b.Instrs[len(b.Instrs)-1].(*ssa.If)
					if !ok {
						continue
					}
					sn := core.ErrNilSucc(core.DecodeCond(ds, iff), errV)
					if sn < 0 {
						continue
					}
					if w := (core.PathQuery{Fn: f, StartEdge: &[2]*ssa.BasicBlock{b, b.Succs[1-sn]}, Target: isAttSign}).Find(); w != nil {
						wit = w
					}
				}
				r.Check(wit == nil, "C01.m", fmt.Sprintf("%s|no-request-after-failed-request#%d", core.FnKey(f), i+1), p.Pos(site.Pos()), "after a failed signing request no further signing request is made", "after this signing request has failed another signing request is made for the same attestations: the remote signer may have carried out the first one, so the validators are asked for a second attestation signature in the epoch", p.WitnessText(wit)...)
			}
		}
		r.Floor("C01.m attestation signing requests in the signer", nSR, 2)
	}

	// ---- (k) one signature request entry per validator: the accounts handed to the signer are collected by ranging over
	// the map of validating accounts (one entry per validator index), not by walking the duty's list of indices — a duty
	// that lists a validator twice (two committees) would otherwise have it signed twice in one request ----
	{
		nAcc := 0
		for _, f := range p.FuncsIn(attRel) {
			core.EachInstr(f, func(in ssa.Instruction) {
				c, ok := in.(*ssa.Call)
				if !ok {
					return
				}
				b, ok := c.Call.Value.(*ssa.Builtin)
				if !ok || b.Name() != "append" {
					return
				}
				sl, ok := c.Type().Underlying().(*types.Slice)
				if !ok || !(strings.Contains(sl.Elem().String(), "wallet-types") && strings.HasSuffix(sl.Elem().String(), ".Account")) {
					return
				}
				srcs := appendedSources(c)
				if len(srcs) != 1 {
					return
				}
				nAcc++
				rng, which, isR := core.MapRange(srcs[0])
				okSrc := isR && which == 2 && ds.D(rng.X).MentionsCall("ValidatingAccountsForEpochByIndex")
				r.Check(okSrc, "C01.k", fmt.Sprintf("%s|accounts-one-per-validator#%d", core.FnKey(f), nAcc), p.Pos(c.Pos()), "the accounts to sign with are the values of the validating-accounts map, one per validator",
					"the accounts to sign with are collected as "+ds.D(srcs[0]).String()+", not by ranging over the map of validating accounts: a validator that appears twice in the duty is put into the signature request twice")
			})
		}
		r.Floor("C01.k account collections in the attester", nAcc, 1)
	}

	// ---- (l) every access to the per-epoch attested sets is made under their mutex — also the "is there a set for this
	// epoch yet" test: two first runs of an epoch that both see "no set" create it twice, and the second creation throws
	// away what the first run has marked ----
	{
		nAtt := checkFieldsUnderMutex(p, r, core.NewLockAnalysis(p), "C01.l", attRel, []string{"attested"}, "attestedMu",
			"a run that overlaps this access can lose or miss a mark, so a validator is signed for twice in the epoch")
		r.Floor("C01.l accesses to the attested sets", nAtt, 4)
	}

	// the chain of functions from the sign site up to the entry (Attest)
	chain := callChain(p, signFn, signSite.(ssa.Instruction), 4)
	entry := chain[len(chain)-1]
	r.Tables["sign-chain"] = func() []string {
		var s []string
		for _, l := range chain {
			s = append(s, core.FnKey(l.fn))
		}
		return s
	}()

	// ---- the filter: the function of the package that tests membership in the per-epoch attested set ----
	// (the set is the service's field of type map[Epoch]map[ValidatorIndex]struct{})
	var filterFn *ssa.Function
	var attestedField core.FieldID
	isAttestedMap := func(t types.Type) bool {
		m, ok := t.Underlying().(*types.Map)
		if !ok || !core.IsSlotOrEpoch(m.Key()) {
			return false
		}
		inner, ok := m.Elem().Underlying().(*types.Map)
		if !ok {
			return false
		}
		st, ok := inner.Elem().Underlying().(*types.Struct)
		return ok && st.NumFields() == 0
	}
	for _, f := range p.FuncsIn(attRel) {
		core.EachInstr(f, func(in ssa.Instruction) {
			lk, ok := in.(*ssa.Lookup)
			if !ok || !lk.CommaOk {
				return
			}
			if id, ok := epochSetOf(lk.X, isAttestedMap); ok {
				filterFn = f
				attestedField = id
			}
		})
	}
	if filterFn == nil {
		r.Undecide("C01.anchor", "attested filter", "", "no function marks validators in a per-epoch set")
		return
	}
	r.Tables["filter"] = core.FnKey(filterFn)
	r.Tables["attested-field"] = attestedField.String()

	// ---- (b) filter ⊳ sign; accounts derive from the filter result ----
	var filterCall ssa.CallInstruction
	var filterLevel *level
	for i := range chain {
		for _, ci := range core.Calls(chain[i].fn, func(c *ssa.CallCommon) bool { return c.StaticCallee() == filterFn }) {
			filterCall = ci
			filterLevel = &chain[i]
		}
	}
	if filterCall == nil {
		r.Violate("C01.b", "filter-before-sign", p.Pos(signSite.Pos()), "the already-attested filter "+core.FnKey(filterFn)+" is not called on the way to the signer")
	} else {
		w := core.PathQuery{Fn: filterLevel.fn, Target: func(in ssa.Instruction) bool { return in == filterLevel.site }, Avoid: func(in ssa.Instruction) bool { return in == filterCall.(ssa.Instruction) }}.Find()
		r.Check(w == nil, "C01.b", "filter-before-sign", p.Pos(filterCall.Pos()), "every path to the signer passes the already-attested filter", "the signer can be reached without passing the already-attested filter", p.WitnessText(w)...)
		// accounts provenance: ValidatingAccountsForEpochByIndex(ctx, epoch, X) with X = filter result
		okProv := false
		var seen string
		for _, ci := range core.CallsNamed(filterLevel.fn, "ValidatingAccountsForEpochByIndex") {
			a := ci.Common().Args
			idxArg := a[len(a)-1]
			if st := singleStoreOf(idxArg); st != nil {
				idxArg = st // a local captured by a closure lives in a cell: what is read is what was stored once
			}
			xd := ds.D(idxArg)
			seen = xd.String()
			if xd.MentionsValue(filterCall.Value()) {
				okProv = true
				// and the accounts passed on derive from this call
				accArgIdx := core.ParamIndex(chain[0].fn, "accounts")
				_ = accArgIdx
				ed := ds.D(a[len(a)-2])
				r.Check(mentionsDutyEpoch(ed), "C01.b", "accounts-epoch", p.Pos(ci.Pos()), "accounts requested for the duty's epoch", "accounts are requested for "+ed.String()+", not for the epoch of duty.Slot()")
			}
		}
		r.Check(okProv, "C01.b", "accounts-from-filter", p.Pos(filterCall.Pos()), "validating accounts are requested for exactly the filter's result", "validating accounts are not requested for the filter's result: "+seen)
		// the accounts argument of the call leading to the signer derives from that provider call
		if cs, ok := filterLevel.site.(ssa.CallInstruction); ok {
			found := false
			for _, a := range cs.Common().Args {
				if _, isSlice := a.Type().Underlying().(*types.Slice); !isSlice {
					continue
				}
				for _, src := range appendedSources(a) {
					if ds.D(src).MentionsCall("ValidatingAccountsForEpochByIndex") {
						found = true
					}
				}
				if ds.D(a).MentionsCall("ValidatingAccountsForEpochByIndex") {
					found = true
				}
			}
			r.Check(found, "C01.b", "signer-accounts-provenance", p.Pos(cs.Pos()), "accounts passed towards the signer come from ValidatingAccountsForEpochByIndex(filter result)", "no argument passed towards the signer derives from the filtered account lookup")
		}
	}

	// ---- (c) atomic check-and-mark ----
	held := la.HeldAt(filterFn)
	var innerLookups, outerTests []*ssa.Lookup
	var innerInserts, outerStores []*ssa.MapUpdate
	core.EachInstr(filterFn, func(in ssa.Instruction) {
		switch x := in.(type) {
		case *ssa.Lookup:
			if id, ok := epochSetOf(x.X, isAttestedMap); ok && id == attestedField {
				innerLookups = append(innerLookups, x)
			}
			if id, ok := core.FieldOfValue(x.X); ok && id == attestedField && x.CommaOk {
				outerTests = append(outerTests, x)
			}
		case *ssa.MapUpdate:
			if id, ok := epochSetOf(x.Map, isAttestedMap); ok && id == attestedField {
				innerInserts = append(innerInserts, x)
			}
			if id, ok := core.FieldOfValue(x.Map); ok && id == attestedField {
				outerStores = append(outerStores, x)
			}
		}
	})
	// releasedBetween: attestedMu can be released on the way from test to act
	releasedBetween := func(test, act ssa.Instruction) (bool, []string) {
		bad := false
		var wit []string
		core.EachInstr(filterFn, func(in ssa.Instruction) {
			ci, ok := in.(ssa.CallInstruction)
			if !ok || bad {
				return
			}
			op, ok := core.LockOpOf(ci)
			if !ok || op.Acquire || op.Lock.Field.Name != "attestedMu" {
				return
			}
			isTest := func(x ssa.Instruction) bool { return x == test }
			w1 := core.PathQuery{Fn: filterFn, From: test, Target: func(x ssa.Instruction) bool { return x == in }, Avoid: isTest}.Find()
			w2 := core.PathQuery{Fn: filterFn, From: in, Target: func(x ssa.Instruction) bool { return x == act }, Avoid: isTest}.Find()
			if w1 != nil && w2 != nil {
				bad = true
				wit = append(p.WitnessText(w1), p.WitnessText(w2)...)
			}
		})
		return bad, wit
	}
	// (n) the epoch's set is created in the critical section that found it missing: a set stored after the lock was given
	// up in between replaces the set another run has stored (and marked validators in) meanwhile
	for i, st := range outerStores {
		construct := fmt.Sprintf("%s|epoch-set-store#%d", core.FnKey(filterFn), i+1)
		var test *ssa.Lookup
		for _, lk := range outerTests {
			if ds.D(lk.Index).String() == ds.D(st.Key).String() && core.InstrDominates(lk, st) {
				test = lk
			}
		}
		if test == nil {
			r.Violate("C01.n", construct+"|tested", p.Pos(st.Pos()), "the set of an epoch is stored without a test, in the same function, that the epoch has none yet: the marks already made for the epoch are thrown away")
			continue
		}
		bad, wit := releasedBetween(test, st)
		r.Check(!bad, "C01.n", construct+"|one-critical-section", p.Pos(st.Pos()), "the epoch's set is stored in the critical section that found it missing", "attestedMu is released between the test that the epoch has no set and the store of a new one: two overlapping runs both create a set, the later store replaces the earlier, and each run marks its own set — the validators they share are signed twice", wit...)
	}
	r.Floor("C01.c membership tests", len(innerLookups), 1)
	if len(innerInserts) == 0 {
		r.Violate("C01.c", core.FnKey(filterFn)+"|no-mark", p.Pos(filterFn.Pos()), "membership in the attested set is tested but no validator is ever marked: repeated duties are signed again")
	}
	for i, ins := range innerInserts {
		construct := fmt.Sprintf("%s|mark#%d", core.FnKey(filterFn), i+1)
		r.Check(heldGuard(p, la, held[ins], attestedField, true), "C01.c", construct+"|locked", p.Pos(ins.Pos()), "mark made with attestedMu held", "mark made without attestedMu held")
		// key is the validator being tested
		var test *ssa.Lookup
		for _, lk := range innerLookups {
			if ds.D(lk.Index).String() == ds.D(ins.Key).String() && lk.CommaOk {
				test = lk
			}
		}
		if test == nil {
			r.Violate("C01.c", construct+"|tested", p.Pos(ins.Pos()), "the validator marked is not the one whose membership was tested")
			continue
		}
		r.Check(heldGuard(p, la, held[test], attestedField, true), "C01.c", construct+"|test-locked", p.Pos(test.Pos()), "membership test made with attestedMu held", "membership test made without attestedMu held")
		okv := core.ExtractOf(test, 1)
		w := core.Unguarded(ds, filterFn, nil, func(in ssa.Instruction) bool { return in == ssa.Instruction(ins) }, func(c core.Cond) int {
			if okv != nil && c.B != nil && c.B.Val == okv {
				if c.BoolOnEdge(0) {
					return 1
				}
				return 0
			}
			return -1
		})
		r.Check(w == nil, "C01.c", construct+"|not-found-edge", p.Pos(ins.Pos()), "mark only on the edge where the validator was not yet in the set", "mark reachable without the membership test having failed", p.WitnessText(w)...)
		// no release between test and mark
		bad := false
		var wit []string
		core.EachInstr(filterFn, func(in ssa.Instruction) {
			ci, ok := in.(ssa.CallInstruction)
			if !ok || bad {
				return
			}
			op, ok := core.LockOpOf(ci)
			if !ok || op.Acquire || op.Lock.Field.Name != "attestedMu" {
				return
			}
			isTest := func(x ssa.Instruction) bool { return x == ssa.Instruction(test) }
			w1 := core.PathQuery{Fn: filterFn, From: test, Target: func(x ssa.Instruction) bool { return x == in }, Avoid: isTest}.Find()
			w2 := core.PathQuery{Fn: filterFn, From: in, Target: func(x ssa.Instruction) bool { return x == ssa.Instruction(ins) }, Avoid: isTest}.Find()
			if w1 != nil && w2 != nil {
				bad = true
				wit = append(p.WitnessText(w1), p.WitnessText(w2)...)
			}
		})
		r.Check(!bad, "C01.c", construct+"|one-critical-section", p.Pos(ins.Pos()), "test and mark are in one critical section", "attestedMu is released between the membership test and the mark (two overlapping runs can both pass the test)", wit...)
		// what the filter returns are exactly the validators it marked: after a mark, the iteration cannot end
		// (next membership test, or return) without the validator having been appended to the result
		isResultAppend := func(x ssa.Instruction) bool {
			c, ok := x.(*ssa.Call)
			if !ok {
				return false
			}
			b, ok := c.Call.Value.(*ssa.Builtin)
			return ok && b.Name() == "append" && types.Identical(c.Type(), filterFn.Signature.Results().At(0).Type())
		}
		// (the append may precede or follow the mark within the iteration: both orders are the same edge)
		iterEnd := func(x ssa.Instruction) bool { return x == ssa.Instruction(test) || core.IsReturn(x) }
		avoidApp := func(x ssa.Instruction) bool { return isResultAppend(x) || x == ssa.Instruction(test) }
		w1 := core.PathQuery{Fn: filterFn, From: test, Target: func(x ssa.Instruction) bool { return x == ssa.Instruction(ins) }, Avoid: avoidApp}.Find()
		var wSkip []ssa.Instruction
		if w1 != nil {
			wSkip = core.PathQuery{Fn: filterFn, From: ins, Target: iterEnd, Avoid: isResultAppend}.Find()
		}
		r.Check(wSkip == nil, "C01.c", construct+"|returned-iff-marked", p.Pos(ins.Pos()), "a marked validator is always added to the result in the same iteration", "the validator is not added to the filter's result where it is marked", p.WitnessText(wSkip)...)
	}
	// every return value of the filter is built only from newly marked validators: an iteration that appends to the
	// result without passing a mark is a leak
	core.EachInstr(filterFn, func(in ssa.Instruction) {
		c, ok := in.(*ssa.Call)
		if !ok {
			return
		}
		b, ok := c.Call.Value.(*ssa.Builtin)
		if !ok || b.Name() != "append" {
			return
		}
		if !types.Identical(c.Type(), filterFn.Signature.Results().At(0).Type()) {
			return
		}
		isMark := func(x ssa.Instruction) bool {
			for _, ins := range innerInserts {
				if x == ssa.Instruction(ins) {
					return true
				}
			}
			return false
		}
		isTestI := func(x ssa.Instruction) bool {
			for _, t := range innerLookups {
				if x == ssa.Instruction(t) {
					return true
				}
			}
			return false
		}
		marked := true
		for _, t := range innerLookups {
			a := core.PathQuery{Fn: filterFn, From: t, Target: func(x ssa.Instruction) bool { return x == in }, Avoid: func(x ssa.Instruction) bool { return isMark(x) || isTestI(x) }}.Find()
			if a == nil {
				continue
			}
			b2 := core.PathQuery{Fn: filterFn, From: in, Target: func(x ssa.Instruction) bool { return isTestI(x) || core.IsReturn(x) }, Avoid: isMark}.Find()
			if b2 != nil {
				marked = false
			}
		}
		if len(innerLookups) == 0 {
			marked = false
		}
		r.Check(marked, "C01.c", core.FnKey(filterFn)+"|append-without-mark", p.Pos(in.Pos()), "result grows only where a mark is made", "a validator is added to the filter's result on an edge where it is not marked as attested")
	})

	// ---- (d) mark before effect ----
	if filterCall != nil {
		effects := []string{"AttestationData", "SubmitAttestations", "SignBeaconAttestations"}
		for _, l := range chain {
			for _, ci := range core.Calls(l.fn, func(c *ssa.CallCommon) bool {
				if c.IsInvoke() {
					for _, e := range effects {
						if c.Method.Name() == e {
							return true
						}
					}
					return false
				}
				// helpers that reach the data provider
				f := c.StaticCallee()
				return f != nil && f.Pkg == l.fn.Pkg && len(core.CallsNamed(f, "AttestationData")) > 0
			}) {
				if l.fn != filterLevel.fn {
					continue // lower levels are entered through filterLevel.site, already covered by (b)
				}
				w := core.PathQuery{Fn: l.fn, Target: func(in ssa.Instruction) bool { return in == ci.(ssa.Instruction) }, Avoid: func(in ssa.Instruction) bool { return in == filterCall.(ssa.Instruction) }}.Find()
				r.Check(w == nil, "C01.d", "mark-before|"+core.CalleeName(ci.Common()), p.Pos(ci.Pos()), "the mark precedes this effect on every path", "this effect can happen before the validators are marked as attested (an overlapping run can pass the filter meanwhile)", p.WitnessText(w)...)
			}
		}
	}

	// ---- (e) marks are not withdrawn early ----
	nDel := 0
	for _, f := range p.FuncsIn(attRel) {
		core.EachInstr(f, func(in ssa.Instruction) {
			switch x := in.(type) {
			case *ssa.Call:
				b, ok := x.Call.Value.(*ssa.Builtin)
				if !ok || b.Name() != "delete" {
					return
				}
				m := x.Call.Args[0]
				if id, ok := core.FieldOfValue(m); ok && id == attestedField {
					nDel++
					kd := ds.D(x.Call.Args[1])
					construct := core.FnKey(f) + "|delete-epoch"
					okKey := false
					var c uint64
					if kd.Kind == "binop" && kd.Name == "-" {
						if cv, ok := kd.Args[1].Val.(*ssa.Const); ok && cv.Value != nil && cv.Value.Kind() == constant.Int {
							c, _ = constant.Uint64Val(cv.Value)
							okKey = c >= 2 && kd.Args[0].MentionsCall("services/attester.Duty.Slot")
						}
					}
					r.Check(okKey, "C01.e", construct+"|key", p.Pos(in.Pos()), fmt.Sprintf("housekeeping deletes epoch(duty)-%d", c), "housekeeping deletes "+kd.String()+": marks of the current or previous epoch would be withdrawn (must be epoch(duty.Slot()) - c, c >= 2)")
					if sub, ok := x.Call.Args[1].(*ssa.BinOp); ok && sub.Op == token.SUB {
						w := core.SubUnguarded(ds, f, sub)
						r.Check(w == nil, "C01.e", construct+"|guarded-sub", p.Pos(in.Pos()), "the epoch subtraction is guarded", "the epoch subtraction can wrap (no guard epoch > c-1)", p.WitnessText(w)...)
					}
					r.Check(heldGuard(p, la, la.HeldAt(f)[in], attestedField, true), "C01.e", construct+"|locked", p.Pos(in.Pos()), "delete under attestedMu", "delete without attestedMu")
					return
				}
				if lk, ok := m.(*ssa.Lookup); ok {
					if id, ok := core.FieldOfValue(lk.X); ok && id == attestedField {
						r.Violate("C01.e", core.FnKey(f)+"|unmark", p.Pos(in.Pos()), "a validator's attested mark is removed: a later run for the same epoch would sign again")
					}
				}
			case *ssa.MapUpdate:
				if id, ok := core.FieldOfValue(x.Map); ok && id == attestedField {
					// replacing an epoch's set: only when it does not exist yet
					lkOK := false
					w := core.Unguarded(ds, f, nil, func(i ssa.Instruction) bool { return i == in }, func(c core.Cond) int {
						if c.B == nil {
							return -1
						}
						ex, ok := c.B.Val.(*ssa.Extract)
						if !ok || ex.Index != 1 {
							return -1
						}
						lk, ok := ex.Tuple.(*ssa.Lookup)
						if !ok {
							return -1
						}
						if id, ok := core.FieldOfValue(lk.X); !ok || id != attestedField {
							return -1
						}
						if ds.D(lk.Index).String() != ds.D(x.Key).String() {
							return -1
						}
						lkOK = true
						if c.BoolOnEdge(0) {
							return 1
						}
						return 0
					})
					r.Check(w == nil && lkOK, "C01.e", core.FnKey(f)+"|epoch-set-init", p.Pos(in.Pos()), "an epoch's set is created only when absent", "an epoch's attested set can be replaced while it exists (all marks of the epoch are lost)", p.WitnessText(w)...)
				}
			case *ssa.Store:
				if id, _, ok := core.FieldOfAddr(x.Addr); ok && id == attestedField && f.Name() != "New" {
					// the copy-on-write form of the housekeeping delete: a new outer map that takes over every epoch's set as
					// it is (same key, same set object) except the one of epoch(duty)-c, stored under the lock
					if dropped, okCopy := attestedCopyWithout(ds, f, x, attestedField); okCopy {
						nDel++
						kd := ds.D(dropped)
						construct := core.FnKey(f) + "|delete-epoch"
						okKey := false
						var c uint64
						if kd.Kind == "binop" && kd.Name == "-" {
							if cv, ok := kd.Args[1].Val.(*ssa.Const); ok && cv.Value != nil && cv.Value.Kind() == constant.Int {
								c, _ = constant.Uint64Val(cv.Value)
								okKey = c >= 2 && kd.Args[0].MentionsCall("services/attester.Duty.Slot")
							}
						}
						r.Check(okKey, "C01.e", construct+"|key", p.Pos(in.Pos()), fmt.Sprintf("housekeeping leaves out epoch(duty)-%d", c), "housekeeping leaves out "+kd.String()+": marks of the current or previous epoch would be withdrawn (must be epoch(duty.Slot()) - c, c >= 2)")
						if sub, ok := dropped.(*ssa.BinOp); ok && sub.Op == token.SUB {
							w := core.SubUnguarded(ds, f, sub)
							r.Check(w == nil, "C01.e", construct+"|guarded-sub", p.Pos(in.Pos()), "the epoch subtraction is guarded", "the epoch subtraction can wrap (no guard epoch > c-1)", p.WitnessText(w)...)
						}
						r.Check(heldGuard(p, la, la.HeldAt(f)[in], attestedField, true), "C01.e", construct+"|locked", p.Pos(in.Pos()), "replacement under attestedMu", "replacement without attestedMu")
						return
					}
					r.Violate("C01.e", core.FnKey(f)+"|replace-attested", p.Pos(in.Pos()), "the attested map is replaced outside the constructor")
				}
			}
		})
	}
	r.Floor("C01.e housekeeping deletes", nDel, 1)

	// ---- (f) validation ⊳ sign ----
	for _, ng := range attestationGuards() {
		ok, wit, how := guardOnChain(p, ds, chain, ng.g)
		r.Check(ok, "C01.f", "validation|"+ng.name, p.Pos(entry.site.Pos()), ng.what+" is established on every path to the signer ("+how+")",
			"the signer is reachable without "+ng.what+" having been established", p.WitnessText(wit)...)
	}
	// the data validated is the data signed: the value passed to the helper / tested and the value whose fields reach the signer are the same
	sa := signSite.Common().Args
	if len(sa) >= 9 {
		sd := ds.D(sa[2])
		r.Check(sd.IsCall("services/attester.Duty.Slot"), "C01.g", "signed-slot", p.Pos(signSite.Pos()), "the slot signed is duty.Slot()", "the slot signed is "+sd.String()+", not duty.Slot()")
		for i, fld := range [][]string{{"BeaconBlockRoot"}, {"Source", "Epoch"}, {"Source", "Root"}, {"Target", "Epoch"}, {"Target", "Root"}} {
			ad := ds.D(sa[4+i])
			r.Check(attField(ad, fld...), "C01.g", "signed-"+strings.Join(fld, "."), p.Pos(signSite.Pos()), "signer receives data."+strings.Join(fld, "."), "signer argument is "+ad.String()+", expected data."+strings.Join(fld, "."))
		}
		// the data value in the sign function is, at the entry level, the one that was validated
		if k := core.ParamIndex(signFn, "data"); k >= 0 && len(chain) > 1 {
			origins := p.ParamOrigins(signFn, k, 0)
			for _, o := range origins {
				od := ds.D(o)
				// validated value: argument of the helper / operand of the guards in entry.fn
				validated := false
				for _, ci := range core.Calls(entry.fn, func(c *ssa.CallCommon) bool { return c.StaticCallee() != nil }) {
					if ci == entry.site {
						continue
					}
					for _, a := range ci.Common().Args {
						if core.CountGuards(ds, ci.Common().StaticCallee(), attestationGuards()[0].g) == 0 {
							continue
						}
						if a == o {
							validated = true
						}
						// the signed value is a merge whose only feasible alternative is the validated one (the others
						// are the nil results of failure exits, after which the entry returns)
						if site, ok := entry.site.(ssa.Instruction); ok {
							leaves := core.FeasibleLeaves(entry.fn, o, site)
							if len(leaves) > 0 {
								all := true
								for _, lf := range leaves {
									if lf.V != a {
										all = false
									}
								}
								if all {
									validated = true
								}
							}
						}
					}
				}
				if core.CountGuards(ds, entry.fn, attestationGuards()[0].g) > 0 {
					validated = true
				}
				r.Check(validated, "C01.g", "validated-is-signed", p.Pos(entry.site.Pos()), "the data value handed to the signer is the one that was validated: "+od.String(), "the data value handed to the signer ("+od.String()+") is not the value that was validated")
			}
		}
	}

	// ---- (h) strategy-level filter ----
	checkAttestationDataStrategyFilter(p, r, ds, "C01.h")
}

// checkAttestationDataStrategyFilter: the best/majority attestation-data strategies forward a response only under
// data != nil, target != nil and target epoch == epoch of the requested slot.
func checkAttestationDataStrategyFilter(p *core.Prog, r *core.Report, ds *core.Describer, ruleID string) {
	nW := 0
	for _, rel := range []string{"strategies/attestationdata/best", "strategies/attestationdata/majority"} {
		for _, f := range p.FuncsIn(rel) {
			core.EachInstr(f, func(in ssa.Instruction) {
				snd, ok := in.(*ssa.Send)
				if !ok {
					return
				}
				// the response channel: element type has a field holding *phase0.AttestationData
				if !sendsAttestationData(snd) {
					return
				}
				nW++
				construct := core.FnKey(f) + "|forward-response"
				tgtE := func(d *core.VD) bool { return attField(d, "Target", "Epoch") }
				epochOfRequest := func(d *core.VD) (*core.VD, bool) {
					var root *core.VD
					ok := d.Any(func(x *core.VD) bool {
						if !x.IsCall("SlotToEpoch") || len(x.Args) == 0 {
							return false
						}
						a := x.Args[len(x.Args)-1]
						rt, path := a.FieldPath()
						if len(path) == 1 && path[0] == "Slot" && rt.Kind == "param" && !isAttDataRoot(rt) {
							root = rt
							return true
						}
						return false
					})
					return root, ok
				}
				reqEpoch := func(d *core.VD) bool {
					if _, ok := epochOfRequest(d); ok {
						return true
					}
					// the epoch worked out once by the caller and handed to every worker: a parameter that, at every
					// call of this function, is SlotToEpoch(X.Slot) for the request X handed over in the same call
					prm, isPrm := d.Val.(*ssa.Parameter)
					if !isPrm || prm.Parent() != f {
						return false
					}
					k := core.ParamIndex(f, prm.Name())
					n := p.CallGraph().Nodes[f]
					if k < 0 || n == nil {
						return false
					}
					sites := 0
					for _, e := range n.In {
						if e.Site == nil || e.Site.Common().StaticCallee() != f {
							continue
						}
						args := e.Site.Common().Args
						if k >= len(args) {
							return false
						}
						root, ok := epochOfRequest(ds.D(args[k]))
						if !ok {
							return false
						}
						same := false
						for j, a := range args {
							if j != k && a == root.Val {
								same = true
							}
						}
						if !same {
							return false
						}
						sites++
					}
					return sites > 0
				}
				w := core.Unguarded(ds, f, nil, func(x ssa.Instruction) bool { return x == in }, relGuard(tgtE, reqEpoch, map[string]bool{"==": true}))
				r.Check(w == nil, ruleID, construct+"|target-epoch", p.Pos(in.Pos()), "response forwarded only when target epoch == epoch of the requested slot", "a response can be forwarded without target epoch == SlotToEpoch(opts.Slot) having been established", p.WitnessText(w)...)
				// target != nil and data != nil
				for _, nf := range []struct {
					name string
					m    func(*core.VD) bool
				}{
					{"data-non-nil", func(d *core.VD) bool { return isAttDataRoot(d) && d.Kind != "const" }},
					{"target-non-nil", func(d *core.VD) bool { return attField(d, "Target") }},
				} {
					m := nf.m
					w := core.Unguarded(ds, f, nil, func(x ssa.Instruction) bool { return x == in }, func(c core.Cond) int {
						if c.Op != "==" && c.Op != "!=" {
							return -1
						}
						var o *core.VD
						if c.Y.Kind == "const" && c.Y.Name == "nil" {
							o = c.X
						} else if c.X.Kind == "const" && c.X.Name == "nil" {
							o = c.Y
						} else {
							return -1
						}
						if !m(o) {
							return -1
						}
						for s := 0; s < 2; s++ {
							if c.RelOnEdge(s) == "!=" {
								return s
							}
						}
						return -1
					})
					r.Check(w == nil, ruleID, construct+"|"+nf.name, p.Pos(in.Pos()), nf.name+" established before forwarding", "a response can be forwarded without "+nf.name, p.WitnessText(w)...)
				}
			})
		}
	}
	r.Floor("C01.h strategy workers forwarding attestation data", nW, 2)
}

func sendsAttestationData(snd *ssa.Send) bool {
	t := snd.X.Type()
	if p, ok := t.Underlying().(*types.Pointer); ok {
		t = p.Elem()
	}
	st, ok := t.Underlying().(*types.Struct)
	if !ok {
		return false
	}
	for i := 0; i < st.NumFields(); i++ {
		if strings.HasSuffix(types.TypeString(st.Field(i).Type(), nil), "spec/phase0.AttestationData") {
			return true
		}
	}
	return false
}

// appendedSources returns the values appended to a slice value built by append calls (through phis).
func appendedSources(v ssa.Value) []ssa.Value {
	var out []ssa.Value
	seen := map[ssa.Value]bool{}
	var rec func(v ssa.Value)
	rec = func(v ssa.Value) {
		if seen[v] {
			return
		}
		seen[v] = true
		switch x := v.(type) {
		case *ssa.Phi:
			for _, e := range x.Edges {
				rec(e)
			}
		case *ssa.Call:
			if b, ok := x.Call.Value.(*ssa.Builtin); ok && b.Name() == "append" {
				rec(x.Call.Args[0])
				if len(x.Call.Args) > 1 {
					// appended elements: a varargs slice
					if sl, ok := x.Call.Args[1].(*ssa.Slice); ok {
						if a, ok := sl.X.(*ssa.Alloc); ok && a.Referrers() != nil {
							for _, ref := range *a.Referrers() {
								if ia, ok := ref.(*ssa.IndexAddr); ok && ia.Referrers() != nil {
									for _, r2 := range *ia.Referrers() {
										if st, ok := r2.(*ssa.Store); ok {
											out = append(out, st.Val)
										}
									}
								}
							}
						}
					} else {
						out = append(out, x.Call.Args[1])
					}
				}
			}
		}
	}
	rec(v)
	return out
}

// epochSetOf: v is the set of one epoch taken out of the service's per-epoch map — field[epoch] read directly, the
// value of a two-valued lookup, or a merge of such a value with a set made on the spot.
func epochSetOf(v ssa.Value, isAttestedMap func(types.Type) bool) (core.FieldID, bool) {
	switch x := v.(type) {
	case *ssa.Lookup:
		if isAttestedMap(x.X.Type()) {
			return core.FieldOfValue(x.X)
		}
	case *ssa.Extract:
		if lk, ok := x.Tuple.(*ssa.Lookup); ok && x.Index == 0 && isAttestedMap(lk.X.Type()) {
			return core.FieldOfValue(lk.X)
		}
	case *ssa.Phi:
		for _, e := range x.Edges {
			if _, isPhi := e.(*ssa.Phi); isPhi {
				continue
			}
			if id, ok := epochSetOf(e, isAttestedMap); ok {
				return id, true
			}
		}
	}
	return core.FieldID{}, false
}

// attestedCopyWithout: the value stored by st into the attested field is a map made in f that is filled only inside a
// range over the attested field itself, with the range's own key and value (the per-epoch sets are taken over, not
// copied), and an iteration leaves its entry out only on the edge `key == D`. Returns D.
func attestedCopyWithout(ds *core.Describer, f *ssa.Function, st *ssa.Store, field core.FieldID) (ssa.Value, bool) {
	mk, ok := st.Val.(*ssa.MakeMap)
	if !ok || mk.Parent() != f || mk.Referrers() == nil {
		return nil, false
	}
	var updates []*ssa.MapUpdate
	for _, ref := range *mk.Referrers() {
		switch x := ref.(type) {
		case *ssa.MapUpdate:
			if x.Map != ssa.Value(mk) {
				return nil, false
			}
			updates = append(updates, x)
		case *ssa.Store, *ssa.DebugRef:
		default:
			return nil, false
		}
	}
	if len(updates) != 1 {
		return nil, false
	}
	mu := updates[0]
	kx, ok1 := mu.Key.(*ssa.Extract)
	vx, ok2 := mu.Value.(*ssa.Extract)
	if !ok1 || !ok2 || kx.Tuple != vx.Tuple || kx.Index != 1 || vx.Index != 2 {
		return nil, false
	}
	next, ok := kx.Tuple.(*ssa.Next)
	if !ok {
		return nil, false
	}
	rng, ok := next.Iter.(*ssa.Range)
	if !ok {
		return nil, false
	}
	if id, ok := core.FieldOfValue(rng.X); !ok || id != field {
		return nil, false
	}
	// the only way round the update, from one Next to the following, is the edge key == D
	var dropped ssa.Value
	est := core.GuardEdges(ds, f, func(c core.Cond) int {
		if c.Op != "==" && c.Op != "!=" {
			return -1
		}
		var other *core.VD
		switch {
		case c.X.Val == ssa.Value(kx):
			other = c.Y
		case c.Y.Val == ssa.Value(kx):
			other = c.X
		default:
			return -1
		}
		for s := 0; s < 2; s++ {
			if c.RelOnEdge(s) == "==" {
				dropped = other.Val
				return 1 - s // the entry is kept on the other edge
			}
		}
		return -1
	})
	if dropped == nil || len(est) == 0 {
		return nil, false
	}
	w := core.PathQuery{Fn: f, From: next, Target: func(x ssa.Instruction) bool { return x == ssa.Instruction(next) },
		Avoid: func(x ssa.Instruction) bool { return x == ssa.Instruction(mu) },
		Edge: func(b *ssa.BasicBlock, succ int) bool {
			if s, ok := est[b]; ok && s != succ {
				return false
			}
			return true
		}}.Find()
	if w != nil {
		return nil, false
	}
	return dropped, true
}
