package rules

import (
	"fmt"
	"strings"

	"golang.org/x/tools/go/ssa"

	"vouchcheck/internal/core"
)

func init() {
	register(&Pack{
		ID:  "C18",
		Run: runC18,
		Expl: "Decides structural necessary conditions of 'a block root maps to that block's slot' in services/cache/standard: " +
			"(a) every success return of BlockRootToSlot carries a slot that derives from the cache lookup on the found edge or from the header fetched in this call; " +
			"(b) the value stored on the miss path and the value returned derive from the same response field and the key stored is the root parameter; " +
			"(c) the fetch's failure edge returns a non-nil error derived from the fetch error; (d) block-event handlers store (Block, Slot) of the same event; " +
			"(e) every delete on the map is guarded by slot < minSlot with minSlot = FirstSlotOfEpoch(CurrentEpoch()-margin) — or, when cleaning swaps in a filtered copy, an entry is left out only on that edge and the scan and the swap are one write-locked critical section (no concurrent insert is lost) —, the subtraction is guarded, lock pairing and guarded-by hold for the map. " +
			"Added with the third seeding round: (f) the header strategy the cache fetches from asks the nodes with the caller's options, passes on every successful answer, and does not coalesce requests under a key that is not taken from the request. Added with the fourth seeding round: (g) the chain time service never rounds (shared with C03.m). Added with the fifth seeding round: (h) the head-event handler withholds its store into the block-root/slot cache only when the event itself is unusable. Added with the sixth seeding round and the false-alarm regression: (i) entries are inserted into the block-root cache by the setter only. NOT decided: that the beacon node's header belongs to the root; the size of the retention window; interleavings.",
		Technique:   "SSA value provenance of returned and stored slots, guard/edge-deletion queries on the presence flag and on the cleaning comparison, error-nilness analysis of the failure edge, lock-set dataflow (pairing, guarded-by, one-critical-section for filter-and-swap)",
		Rule:        "one obligation per (rule, return/store/delete/handler site) in the implementers of BlockRootToSlot/SetBlockRootToSlot and the functions touching the blockRootToSlot map; non-trivial = the site exists in the code and a path/provenance query was evaluated for it",
		Assumptions: []string{"go-eth2-client returns a non-nil response with non-nil Data.Header.Message when err == nil (library decoder contract)"},
	})
}

const cacheRel = "services/cache/standard"

func runC18(p *core.Prog, r *core.Report, tier string) {
	ds := core.NewDescriber()
	fn := p.Func(cacheRel, "Service", "BlockRootToSlot")
	setter := p.Func(cacheRel, "Service", "SetBlockRootToSlot")
	if fn == nil || setter == nil {
		r.Undecide("C18.anchor", "cache/standard.Service.BlockRootToSlot|SetBlockRootToSlot", "", "anchor method not found")
		return
	}
	r.Count("functions", 2)

	// which field is the cache map: the map field the setter inserts into
	var mapField core.FieldID
	for _, op := range core.MapOps(setter) {
		if op.Kind == "insert" {
			mapField = op.Field
			// C18.b'(setter): key and value are the parameters, in order
			kd, vd := ds.D(op.Key), ds.D(op.Val)
			ok := len(setter.Params) == 3 && kd.Kind == "param" && kd.Name == setter.Params[1].Name() && vd.Kind == "param" && vd.Name == setter.Params[2].Name()
			r.Check(ok, "C18.b", "SetBlockRootToSlot|insert", p.Pos(op.Instr.Pos()),
				"setter stores map[root-param] = slot-param", fmt.Sprintf("setter stores %s -> %s instead of its (root, slot) parameters", kd, vd))
		}
	}
	if mapField.Name == "" {
		r.Undecide("C18.anchor", "SetBlockRootToSlot|insert", p.Pos(setter.Pos()), "no map insert found in setter")
		return
	}

	// ---- C18.a: success returns ----
	nSucc := 0
	var fetch *ssa.Call
	for _, ci := range core.CallsNamed(fn, "BeaconBlockHeader") {
		if c, ok := ci.(*ssa.Call); ok && c.Call.IsInvoke() {
			fetch = c
		}
	}
	if fetch == nil {
		r.Undecide("C18.anchor", "BlockRootToSlot|fetch", p.Pos(fn.Pos()), "no BeaconBlockHeader call found")
	}
	for i, ret := range core.ReturnsOf(fn) {
		if len(ret.Results) != 2 {
			continue
		}
		if !core.IsNilConst(ret.Results[1]) {
			continue
		}
		nSucc++
		construct := fmt.Sprintf("BlockRootToSlot|success-return#%d", i+1)
		ok, why, wit := slotValueOK(p, ds, fn, ret.Results[0], ret, mapField)
		if ok {
			r.Hold("C18.a", construct, p.Pos(ret.Pos()), why)
		} else {
			r.Violate("C18.a", construct, p.Pos(ret.Pos()), why, wit...)
		}
		// C18.b: on a return that derives from the fetch, what is stored must be the same value
		d := ds.D(ret.Results[0])
		if fetch != nil && d.MentionsValue(fetch) {
			stored := false
			for _, ci := range core.CallsNamed(fn, "SetBlockRootToSlot") {
				args := ci.Common().Args
				if len(args) < 3 {
					continue
				}
				kd, vd := ds.D(args[len(args)-2]), ds.D(args[len(args)-1])
				stored = true
				ok := kd.Kind == "param" && kd.Name == fn.Params[2].Name() && vd.String() == d.String()
				r.Check(ok, "C18.b", construct+"|store", p.Pos(ci.Pos()), "miss path stores (root-param, "+vd.String()+") and returns the same value",
					fmt.Sprintf("miss path stores (%s, %s) but returns %s", kd, vd, d))
			}
			if !stored {
				for _, op := range core.MapOps(fn) {
					if op.Kind == "insert" && op.Field == mapField {
						stored = true
						kd, vd := ds.D(op.Key), ds.D(op.Val)
						ok := kd.Kind == "param" && kd.Name == fn.Params[2].Name() && vd.String() == d.String()
						r.Check(ok, "C18.b", construct+"|store", p.Pos(op.Instr.Pos()), "miss path stores the returned value under the root parameter",
							fmt.Sprintf("miss path stores (%s, %s) but returns %s", kd, vd, d))
					}
				}
			}
			if !stored {
				r.Violate("C18.b", construct+"|store", p.Pos(ret.Pos()), "the fetched slot is returned but never stored in the cache")
			}
		}
	}
	r.Floor("C18.a success returns", nSucc, 2)

	// Independent of the return: every store call in BlockRootToSlot uses the root parameter and the fetched slot.
	if fetch != nil {
		for _, ci := range core.CallsNamed(fn, "SetBlockRootToSlot") {
			args := ci.Common().Args
			if len(args) < 3 {
				continue
			}
			kd, vd := ds.D(args[len(args)-2]), ds.D(args[len(args)-1])
			ok := kd.Kind == "param" && kd.Name == fn.Params[2].Name()
			nl := 0
			for _, lf := range core.FeasibleLeaves(fn, args[len(args)-1], ci.(ssa.Instruction)) {
				ld := ds.D(lf.V)
				nl++
				if !(ld.MentionsValue(fetch) && ld.HasFieldSuffix("Slot")) {
					ok = false
				}
			}
			if nl == 0 {
				ok = false
			}
			r.Check(ok, "C18.b", "BlockRootToSlot|store-args", p.Pos(ci.Pos()), "stores (root parameter, fetched header slot): "+vd.String(),
				fmt.Sprintf("stores (%s, %s): key must be the root parameter and value the fetched header's Slot", kd, vd))
			// and the store only happens when the fetch succeeded
			w := core.Unguarded(ds, fn, fetch, func(in ssa.Instruction) bool { return in == ci.(ssa.Instruction) }, func(c core.Cond) int { return core.ErrNilSucc(c, fetch) })
			r.Check(w == nil, "C18.b", "BlockRootToSlot|store-after-success", p.Pos(ci.Pos()), "store is reachable only when the fetch error is nil",
				"store reachable on a path where the fetch error was not tested nil", p.WitnessText(w)...)
		}
	}

	// ---- C18.c: failure of the fetch is an error ----
	if fetch != nil {
		w := core.Unguarded(ds, fn, fetch, func(in ssa.Instruction) bool {
			ret, ok := in.(*ssa.Return)
			return ok && len(ret.Results) == 2 && core.IsNilConst(ret.Results[1])
		}, func(c core.Cond) int { return core.ErrNilSucc(c, fetch) })
		r.Check(w == nil, "C18.c", "BlockRootToSlot|fetch-error-edge", p.Pos(fetch.Pos()),
			"every success return after the fetch passes the err == nil edge", "a nil-error return is reachable without the fetch error having been tested nil", p.WitnessText(w)...)
		// returns on the error edge mention the fetch error
		for i, ret := range core.ReturnsOf(fn) {
			if len(ret.Results) != 2 || core.IsNilConst(ret.Results[1]) {
				continue
			}
			d := ds.D(ret.Results[1])
			r.Check(d.MentionsValue(fetch), "C18.c", fmt.Sprintf("BlockRootToSlot|error-return#%d", i+1), p.Pos(ret.Pos()),
				"error return derives from the fetch error: "+d.String(), "error return does not derive from the fetch error: "+d.String())
		}
	}

	// ---- C18.d: event handlers feed (Block, Slot) of the same event ----
	nHandlers := 0
	for _, f := range p.FuncsIn(cacheRel) {
		if f == fn || f == setter {
			continue
		}
		for _, ci := range core.CallsNamed(f, "SetBlockRootToSlot") {
			args := ci.Common().Args
			if len(args) < 3 {
				continue
			}
			nHandlers++
			kd, vd := ds.D(args[len(args)-2]), ds.D(args[len(args)-1])
			kr, kp := kd.FieldPath()
			vr, vp := vd.FieldPath()
			ok := len(kp) == 1 && len(vp) == 1 && kp[0] == "Block" && vp[0] == "Slot" && kr.String() == vr.String()
			r.Check(ok, "C18.d", core.FnKey(f)+"|store", p.Pos(ci.Pos()), "handler stores (ev.Block, ev.Slot) of one event value: "+kr.String(),
				fmt.Sprintf("handler stores (%s, %s): must be Block and Slot of the same event", kd, vd))
		}
	}
	// the other feeders of the cache: every caller of the setter outside the cache package (the controller's block
	// event handler) stores the Block and Slot of one event, unaltered, whichever way the value flows in
	for _, f := range p.SrcFuncs() {
		rel := core.RelPkg(f.Pkg.Pkg.Path())
		if rel == cacheRel || strings.Contains(rel, "/mock") {
			continue
		}
		for _, ci := range core.CallsNamed(f, "SetBlockRootToSlot") {
			args := ci.Common().Args
			if len(args) < 2 {
				continue
			}
			nHandlers++
			kd := ds.D(args[len(args)-2])
			kr, kp := kd.FieldPath()
			ok := len(kp) == 1 && kp[0] == "Block"
			var bad string
			for _, lf := range core.FeasibleLeaves(f, args[len(args)-1], ci.(ssa.Instruction)) {
				vd := ds.D(lf.V)
				vr, vp := vd.FieldPath()
				if !(len(vp) == 1 && vp[0] == "Slot" && vr.String() == kr.String()) {
					ok = false
					bad = vd.String()
				}
			}
			r.Check(ok, "C18.d", core.FnKey(f)+"|store", p.Pos(ci.Pos()), "stores (ev.Block, ev.Slot) of one event value: "+kr.String(),
				fmt.Sprintf("stores (%s, %s): the slot recorded for a root must be that block's own slot from the same event (a value adjusted to the local clock is served as the block's slot by every later hit)", kd, bad))
		}
	}
	r.Floor("C18.d event feeders", nHandlers, 2)

	// ---- C18.e: cleaning ----
	nDel := 0
	for _, f := range p.FuncsIn(cacheRel) {
		for _, op := range core.MapOps(f) {
			if op.Field != mapField {
				continue
			}
			r.Count("map operations", 1)
			if op.Kind != "delete" {
				continue
			}
			nDel++
			construct := core.FnKey(f) + "|delete"
			// guard: slot(range value of same map) < minSlot
			var minSlot *core.VD
			relOK := true
			var badRel string
			guard := func(c core.Cond) int {
				if c.Op == "" {
					return -1
				}
				isRangeVal := func(d *core.VD) bool {
					if d.Kind == "extract" && d.Name == "2" && len(d.Args) == 1 && d.Args[0].Kind == "next" {
						return true
					}
					// the entry read back by the range key: m[key] of the same map
					if lk, ok := d.Val.(*ssa.Lookup); ok && !lk.CommaOk {
						if id, ok := core.FieldOfValue(lk.X); ok && id == mapField {
							kd := ds.D(lk.Index)
							return kd.Kind == "extract" && kd.Name == "1" && len(kd.Args) == 1 && kd.Args[0].Kind == "next"
						}
					}
					return false
				}
				var x, y *core.VD
				flip := false
				if isRangeVal(c.X) {
					x, y = c.X, c.Y
				} else if isRangeVal(c.Y) {
					x, y = c.Y, c.X
					flip = true
				} else {
					return -1
				}
				_ = x
				for s := 0; s < 2; s++ {
					rel := c.RelOnEdge(s)
					if flip {
						rel = core.FlipRel(rel)
					}
					if rel == "<" {
						minSlot = y
						return s
					}
				}
				// a comparison of the entry's slot that is not '<' on either edge
				relOK = false
				badRel = c.Op
				return -1
			}
			w := core.Unguarded(ds, f, nil, func(in ssa.Instruction) bool { return in == op.Instr }, guard)
			if !relOK && w != nil {
				r.Violate("C18.e", construct+"|guard", p.Pos(op.Instr.Pos()), "delete is guarded by a comparison '"+badRel+"' that does not establish entry-slot < minSlot (old entries only)", p.WitnessText(w)...)
			} else {
				r.Check(w == nil, "C18.e", construct+"|guard", p.Pos(op.Instr.Pos()), "delete reachable only on the edge slot < minSlot",
					"delete reachable without the guard entry-slot < minSlot", p.WitnessText(w)...)
			}
			if minSlot != nil {
				okDer := minSlot.MentionsCall("FirstSlotOfEpoch") && minSlot.MentionsCall("CurrentEpoch")
				r.Check(okDer, "C18.e", construct+"|minslot", p.Pos(op.Instr.Pos()), "minSlot = "+minSlot.String(),
					"minSlot does not derive from FirstSlotOfEpoch(CurrentEpoch() - margin): "+minSlot.String())
				// the deleted key is the range key of the same iteration
				kd := ds.D(op.Key)
				r.Check(kd.Kind == "extract" && kd.Name == "1" && kd.Args[0].Kind == "next", "C18.e", construct+"|key", p.Pos(op.Instr.Pos()),
					"deleted key is the range key", "deleted key is not the key of the entry tested: "+kd.String())
			}
			// guarded subtraction in this function
			checkGuardedSub(p, r, ds, f, "C18.e")
		}
	}
	// lock pairing + guarded-by for the map field
	ls := core.NewLockAnalysis(p)
	// the other shape of cleaning: a filtered copy swapped in. The copy must keep what is not old
	// (entry-slot >= minSlot) and the scan and the swap must be one write-locked critical section,
	// or an entry inserted in between is dropped although it is recent.
	nSwap := checkFilteredSwap(p, r, ls, "C18.e", p.FuncsIn(cacheRel), func(f *ssa.Function) bool { return f.Name() == "New" })
	if nSwap > 0 {
		for _, f := range p.FuncsIn(cacheRel) {
			core.EachInstr(f, func(in ssa.Instruction) {
				mu, ok := in.(*ssa.MapUpdate)
				if !ok {
					return
				}
				if _, isLocal := mu.Map.(*ssa.MakeMap); !isLocal {
					return
				}
				vd := ds.D(mu.Value)
				if !(vd.Kind == "extract" && vd.Name == "2" && len(vd.Args) == 1 && vd.Args[0].Kind == "next") {
					return
				}
				keepGuard := func(c core.Cond) int {
					if c.Op == "" {
						return -1
					}
					isRangeVal := func(d *core.VD) bool {
						return d.Kind == "extract" && d.Name == "2" && len(d.Args) == 1 && d.Args[0].Kind == "next"
					}
					flip := false
					if isRangeVal(c.X) {
					} else if isRangeVal(c.Y) {
						flip = true
					} else {
						return -1
					}
					for s := 0; s < 2; s++ {
						rel := c.RelOnEdge(s)
						if flip {
							rel = core.FlipRel(rel)
						}
						if rel == "<" {
							return 1 - s // kept on the other edge: entry-slot >= minSlot
						}
					}
					return -1
				}
				// every recent entry is kept: an iteration skips the copy only on the edge entry-slot < minSlot
				next := vd.Args[0].Val.(ssa.Instruction)
				est := core.GuardEdges(ds, f, keepGuard)
				w := core.PathQuery{Fn: f, From: next, Target: func(x ssa.Instruction) bool { return x == next },
					Avoid: func(x ssa.Instruction) bool { return x == ssa.Instruction(mu) },
					Edge: func(b *ssa.BasicBlock, succ int) bool {
						if s, ok := est[b]; ok && s != succ {
							return false // the edge entry-slot < minSlot: dropping is allowed there
						}
						return true
					}}.Find()
				r.Check(w == nil && len(est) > 0, "C18.e", core.FnKey(f)+"|filtered-copy|keeps-recent", p.Pos(mu.Pos()),
					"an entry is left out of the copy only on the edge entry-slot < minSlot",
					"an entry can be left out of the replacement map although its slot is not below minSlot", p.WitnessText(w)...)
			})
		}
	}
	r.Floor("C18.e delete or filter-and-swap sites", nDel+nSwap, 1)

	for _, f := range p.FuncsIn(cacheRel) {
		for _, v := range ls.Pairing(f) {
			r.Violate("C18.e", core.FnKey(f)+"|lock-pairing|"+v.Lock, p.Pos(v.Pos), "lock "+v.Lock+" may be held at return", v.Witness...)
		}
		if f.Name() == "New" || f.Name() == "init" {
			continue
		}
		held := ls.HeldAt(f)
		for _, op := range core.MapOps(f) {
			if op.Field != mapField {
				continue
			}
			hs := held[op.Instr]
			okRead, okWrite := false, false
			for l := range hs {
				if l.Field.Owner == mapField.Owner {
					if l.Read {
						okRead = true
					} else {
						okRead, okWrite = true, true
					}
				}
			}
			isWrite := op.Kind == "insert" || op.Kind == "delete"
			ok := (isWrite && okWrite) || (!isWrite && okRead)
			r.Check(ok, "C18.e", fmt.Sprintf("%s|guarded-by|%s", core.FnKey(f), op.Kind), p.Pos(op.Instr.Pos()),
				"map "+op.Kind+" under the service's mutex", "map "+op.Kind+" on "+mapField.String()+" without the mutex held (write lock for writes)")
		}
	}
	c18Fetcher(p, r, ds)
	// (h) every block event is recorded: in the cache's block handler the branches that decide whether the store is
	// reached are the assertion/nil tests of the event itself — nothing remembered from earlier events (a second
	// block at the same slot, from a fork, is another root and must be recorded as well)
	nHB := 0
	for _, f := range p.FuncsIn(cacheRel) {
		if f.Name() != "handleBlock" {
			continue
		}
		for _, ci := range core.Calls(f, func(c *ssa.CallCommon) bool {
			callee := c.StaticCallee()
			return callee != nil && callee.Name() == "SetBlockRootToSlot"
		}) {
			nHB++
			k := 0
			var deciders []*ssa.If
			for _, di := range decidingIfs(f, ci.(ssa.Instruction)) {
				// a flag merged from constants (the `ok` of an inlined helper): the tests that set it are judged
				if ups := constFlagDecidersAny(di.If); ups != nil {
					deciders = append(deciders, ups...)
					continue
				}
				deciders = append(deciders, di.If)
			}
			for _, dIf := range deciders {
				di := struct{ If *ssa.If }{dIf}
				k++
				c := core.DecodeCond(ds, di.If)
				okc := false
				switch {
				case c.B != nil && c.B.Val != nil:
					if ex, ok := c.B.Val.(*ssa.Extract); ok {
						if _, isTA := ex.Tuple.(*ssa.TypeAssert); isTA {
							okc = true
						}
					}
				case c.Op != "":
					okc = (c.X.Kind == "const" && c.X.Name == "nil" || c.Y.Kind == "const" && c.Y.Name == "nil") &&
						!c.X.Any(func(x *core.VD) bool { return x.Kind == "field" && strings.HasSuffix(x.String(), "s.") }) // placeholder, refined below
					// a nil test of something held in the service (remembered from earlier events) is not a test of this event
					held := func(d *core.VD) bool {
						return d.Any(func(x *core.VD) bool {
							if fa, ok := x.Val.(*ssa.FieldAddr); ok {
								if id, _, ok := core.FieldOfAddr(fa); ok && strings.HasSuffix(id.Owner, ".Service") {
									return true
								}
							}
							return false
						})
					}
					if held(c.X) || held(c.Y) {
						okc = false
					}
				}
				r.Check(okc, "C18.h", fmt.Sprintf("%s|store#%d|condition#%d", core.FnKey(f), nHB, k), p.Pos(core.IfPos(di.If)), "the store is withheld only when the event itself is unusable",
					"a block event can be left unrecorded on a condition that is not an assertion/nil test of the event itself (e.g. 'a block for this slot was already seen'): a second block at the same slot is another root, and its slot is then unknown to the cache")
			}
		}
	}
	r.Floor("C18.h stores in the cache's block handler", nHB, 1)

	// (i) who may insert: entries come from the setter only (block events and fetched headers go through it); nothing
	// else — the constructor included — puts a root into the map
	for _, f := range p.FuncsIn(cacheRel) {
		for _, op := range core.MapOps(f) {
			if op.Kind == "insert" && op.Field == mapField {
				r.Check(f == setter, "C18.i", core.FnKey(f)+"|insert", p.Pos(op.Instr.Pos()), "entries are inserted by the setter", "an entry is put into the block-root cache outside the setter ("+ds.D(op.Key).String()+" -> "+ds.D(op.Val).String()+"): a root is answered with a slot no block of that root reported")
			}
		}
	}

	// (g) the retention window is measured from the epoch that has started: the clock the cleaner uses never rounds up
	checkChainTimeTruncates(p, r, "C18.g", "shortly before an epoch boundary the cleaner's cut-off moves a whole epoch forward and entries still inside the retention window are removed")
}

// c18Fetcher: the header provider the cache falls back on answers the request it was given. In the strategies
// that implement eth2client.BeaconBlockHeadersProvider: (f1) the nodes are asked with the caller's own options;
// (f2) a node's successful answer is always passed on (none is dropped on grounds of its content); (f3) requests
// are not coalesced under a key that does not identify the block asked for (a shared in-flight result would pair
// one root with another block's slot, and the cache then keeps that pair).
func c18Fetcher(p *core.Prog, r *core.Report, ds *core.Describer) {
	nAsk, nFlight := 0, 0
	for _, f := range p.SrcFuncs() {
		if !strings.HasPrefix(core.RelPkg(f.Pkg.Pkg.Path()), "strategies/beaconblockheader/") {
			continue
		}
		top := f
		for top.Parent() != nil {
			top = top.Parent()
		}
		for _, ci := range core.Calls(f, func(c *ssa.CallCommon) bool { return c.IsInvoke() && c.Method.Name() == "BeaconBlockHeader" }) {
			call, ok := ci.(*ssa.Call)
			if !ok {
				continue
			}
			nAsk++
			// f1: options
			args := call.Call.Args
			od := ds.D(args[len(args)-1])
			isOwn := false
			for _, prm := range top.Params {
				if od.Kind == "param" && od.Name == prm.Name() || od.String() == "var:"+prm.Name() || od.String() == prm.Name() {
					isOwn = true
				}
			}
			r.Check(isOwn, "C18.f", fmt.Sprintf("%s|asks-with-own-options#%d", core.FnKey(f), nAsk), p.Pos(call.Pos()), "the node is asked with the caller's options", "the node is asked with "+od.String()+" instead of the caller's options: the header of another block can be returned for the root asked for")
			// f2: a successful answer is always passed on
			errV := core.ExtractOf(call, 1)
			failed := guardEdges(ds, f, func(c core.Cond) int {
				sx := core.ErrNilSucc(c, errV)
				if sx < 0 {
					return -1
				}
				return 1 - sx
			})
			passes := func(in ssa.Instruction) bool {
				switch x := in.(type) {
				case *ssa.Send:
					return true
				case *ssa.Return:
					// a direct return of the response
					for _, res := range x.Results {
						if ds.D(res).MentionsValue(call) {
							return true
						}
					}
				}
				return false
			}
			w := core.PathQuery{Fn: f, From: call, Target: core.IsReturn, Avoid: passes, Edge: func(b *ssa.BasicBlock, succ int) bool {
				if sx, ok := failed[b]; ok && sx == succ {
					return false
				}
				return true
			}}.Find()
			r.Check(w == nil && errV != nil, "C18.f", fmt.Sprintf("%s|passes-on-every-answer#%d", core.FnKey(f), nAsk), p.Pos(call.Pos()), "a node's successful answer is always passed on",
				"a node's successful answer can be dropped (a path from the err == nil edge ends without sending or returning it): for such blocks the lookup times out instead of returning the block's slot", p.WitnessText(w)...)
		}
	}
	r.Floor("C18.f header requests to nodes", nAsk, 1)
	// f3: coalescing keys
	for _, f := range p.SrcFuncs() {
		for _, ci := range core.Calls(f, func(c *ssa.CallCommon) bool {
			callee := c.StaticCallee()
			return callee != nil && callee.Signature.Recv() != nil && strings.HasSuffix(callee.Signature.Recv().Type().String(), "singleflight.Group") && (callee.Name() == "Do" || callee.Name() == "DoChan")
		}) {
			nFlight++
			kd := ds.D(ci.Common().Args[1])
			fromRequest := kd.Any(func(x *core.VD) bool { return x.Kind == "param" })
			r.Check(fromRequest, "C18.f", fmt.Sprintf("%s|coalescing-key#%d", core.FnKey(f), nFlight), p.Pos(ci.Pos()), "requests are coalesced under a key taken from the request",
				"requests are coalesced under the key "+kd.String()+", which does not identify what is asked for: a caller asking about one block receives the in-flight answer for another")
		}
	}
	if nFlight == 0 {
		r.Hold("C18.f", "no-request-coalescing", "", "no request coalescing (singleflight) in the program")
	}
}

// slotValueOK decides C18.a for one returned value.
func slotValueOK(p *core.Prog, ds *core.Describer, fn *ssa.Function, v ssa.Value, at ssa.Instruction, mapField core.FieldID) (bool, string, []string) {
	if phi, ok := v.(*ssa.Phi); ok {
		for i, e := range phi.Edges {
			pred := phi.Block().Preds[i]
			last := pred.Instrs[len(pred.Instrs)-1]
			// a value that flows in along an edge from which the use is unreachable (the failure exit of an
			// inlined helper, whose error the caller returns) is not a returned value
			edge := [2]*ssa.BasicBlock{pred, phi.Block()}
			if w := (core.PathQuery{Fn: fn, StartEdge: &edge, Target: func(in ssa.Instruction) bool { return in == at }}).Find(); w == nil {
				continue
			}
			if ok, why, wit := slotValueOK(p, ds, fn, e, last, mapField); !ok {
				return false, why, wit
			}
		}
		return true, "all merged values are real slots", nil
	}
	d := ds.D(v)
	if d.Kind == "const" {
		return false, "a constant slot (" + d.Name + ") is returned with a nil error", nil
	}
	// lookup-derived?
	var lk *ssa.Lookup
	d.Walk(func(x *core.VD) bool {
		if l, ok := x.Val.(*ssa.Lookup); ok {
			if id, ok := core.FieldOfValue(l.X); ok && id == mapField {
				lk = l
			}
		}
		return true
	})
	if lk != nil {
		if !lk.CommaOk {
			return false, "slot read from the cache without testing presence (missing entries read as slot 0)", nil
		}
		okv := core.ExtractOf(lk, 1)
		if okv == nil {
			return false, "presence flag of the cache lookup is never used", nil
		}
		w := core.Unguarded(ds, fn, nil, func(in ssa.Instruction) bool { return in == at }, func(c core.Cond) int {
			if c.B != nil && c.B.Val == okv {
				if c.BoolOnEdge(0) {
					return 0
				}
				return 1
			}
			return -1
		})
		if w != nil {
			return false, "stale zero: the value of the cache lookup is returned on a path where the entry was not found (it is the zero slot there)", p.WitnessText(w)
		}
		return true, "returned slot is the cache entry on the found edge", nil
	}
	if d.MentionsCall("BeaconBlockHeader") && d.HasFieldSuffix("Slot") {
		return true, "returned slot derives from the fetched header: " + d.String(), nil
	}
	return false, "returned slot derives neither from a found cache entry nor from the fetched header: " + d.String(), nil
}

// checkGuardedSub: every subtraction on an unsigned Slot/Epoch value in fn must be
// guarded by a comparison that establishes minuend > or >= subtrahend on all paths.
func checkGuardedSub(p *core.Prog, r *core.Report, ds *core.Describer, fn *ssa.Function, rule string) {
	for _, s := range core.UnsignedSubs(fn) {
		construct := core.FnKey(fn) + "|sub|" + ds.D(s.X).String() + "-" + ds.D(s.Y).String()
		w := core.SubUnguarded(ds, fn, s)
		r.Check(w == nil, rule, construct, p.Pos(s.Pos()), "unsigned subtraction is dominated by a guard minuend >(=) subtrahend",
			"unsigned slot/epoch subtraction can wrap: no guard establishes minuend >= subtrahend on some path", p.WitnessText(w)...)
	}
}
