package rules

import (
	"fmt"
	"go/types"
	"sort"
	"strings"

	"golang.org/x/tools/go/ssa"

	"vouchcheck/internal/core"
)

func init() {
	register(&Pack{
		ID:  "C06",
		Run: runC06,
		Expl: "The cryptographic statement (signatures verify against the spec's signing root) is out of reach of static analysis; decided are the INPUTS that determine the signing root in services/signer/standard: " +
			"(a) domain-type table against the consensus/builder specifications: each signing method passes to DomainProvider.Domain/GenesisDomain the service field that New filled from domainType(spec, K) with K the specification's domain name for that duty; optional domain types are non-nil only when the spec lookup succeeded and are tested non-nil before use; " +
			"(b) the domain epoch is Epoch(slot / slotsPerEpoch) of the method's own slot (or its epoch parameter; for contributions the slot of the first contribution); " +
			"(c) the object whose hash tree root is signed is built field by field from the method's like-named parameters, and the protecting-signer call receives the parameters matching the library's parameter names; " +
			"(d) on the non-protecting branch the bytes signed are HashTreeRoot(SigningData{ObjectRoot: root, Domain: domain}) of the helper's own parameters; " +
			"(e) batch results are parallel to the accounts they were requested for through the split by account kind (index-space analysis, and the result space of every batch method is its accounts parameter); " +
			"(f) len(accounts) == len(roots) is established before the second is indexed by the first's index. " +
			"Added with the fourth seeding round: (g) slices the callee co-indexes are handed over cut the same way. Added with the fifth seeding round: (x) the cross-cutting rules inside the signer: a result variable shadowed in a nested scope, then used outside it. Added with the sixth seeding round and the false-alarm regression: (x) no slice parameter is sorted in place in the signer. Added with the seventh seeding round: (k) the groups a batch is split into are signed independently (the second group's test is reached whether or not the first group was empty); (y) C05.k is taken over. Added with the tenth seeding round: (l) nothing is kept between calls: the signer's Service has no field of domain type, and no signing root is taken out of a map. Added with the eleventh seeding round: (m) no map from an account or public key to a position in the request (a request may name an account twice). NOT decided: BLS verification, SSZ merkleisation (library), behaviour of Dirk's multi-signer.",
		Technique: "table agreement against the specification (field -> spec key in New composed with method -> field), provenance of call arguments and composite-literal fields by parameter name, index-space analysis with verified result summaries, guard/edge-deletion for nil and length tests",
		Rule:      "obligations per signing method (a,b,c), per signing helper (d,f), per function with indexed accesses and per batch method (e)",
	})
}

const signerRel = "services/signer/standard"

// the specification's domain names per signing request (consensus specs phase0/altair, builder spec)
var domainOracle = map[string]string{
	"SignBeaconAttestation":       "DOMAIN_BEACON_ATTESTER",
	"SignBeaconAttestations":      "DOMAIN_BEACON_ATTESTER",
	"SignBeaconBlockProposal":     "DOMAIN_BEACON_PROPOSER",
	"SignRANDAOReveal":            "DOMAIN_RANDAO",
	"SignSlotSelection":           "DOMAIN_SELECTION_PROOF",
	"SignSlotSelections":          "DOMAIN_SELECTION_PROOF",
	"SignAggregateAndProof":       "DOMAIN_AGGREGATE_AND_PROOF",
	"SignSyncCommitteeRoot":       "DOMAIN_SYNC_COMMITTEE",
	"SignSyncCommitteeRoots":      "DOMAIN_SYNC_COMMITTEE",
	"SignSyncCommitteeSelection":  "DOMAIN_SYNC_COMMITTEE_SELECTION_PROOF",
	"SignSyncCommitteeSelections": "DOMAIN_SYNC_COMMITTEE_SELECTION_PROOF",
	"SignContributionAndProof":    "DOMAIN_CONTRIBUTION_AND_PROOF",
	"SignContributionAndProofs":   "DOMAIN_CONTRIBUTION_AND_PROOF",
	"SignValidatorRegistration":   "DOMAIN_APPLICATION_BUILDER",
}

func runC06(p *core.Prog, r *core.Report, tier string) {
	ds := core.NewDescriber()
	fns := p.FuncsIn(signerRel)
	nw := p.Func(signerRel, "", "New")
	if nw == nil || len(fns) == 0 {
		r.Undecide("C06.anchor", signerRel+".New", "", "anchor not found")
		return
	}
	// ---- field -> spec key, from New ----
	fieldKey := map[string]string{}
	for _, sl := range core.StructLits(nw, signerRel+".Service") {
		for fld, v := range sl.Fields {
			if !strings.HasSuffix(fld, "DomainType") {
				continue
			}
			// a domain type (or a pointer to one), not a flag that says whether one is known
			if t := v.Type(); !strings.HasSuffix(strings.TrimPrefix(t.String(), "*"), "phase0.DomainType") {
				continue
			}
			keys := map[string]bool{}
			okAll := true
			for _, lf := range core.PhiLeaves(v, sl.Stores[fld]) {
				k, ok := domainKeyOfLeaf(p, r, ds, nw, lf, fld, 0)
				if !ok {
					okAll = false
				}
				if k != "" {
					keys[k] = true
				}
			}
			if len(keys) == 1 && okAll {
				for k := range keys {
					fieldKey[fld] = k
				}
			} else if len(keys) > 1 {
				r.Violate("C06.a", "New|"+fld+"|single-key", p.Pos(sl.Stores[fld].Pos()), fmt.Sprintf("field %s is filled from several spec keys %v", fld, keys))
			}
		}
	}
	r.Tables["field-to-spec-key"] = fieldKey
	r.Floor("C06.a domain-type fields filled in New", len(fieldKey), 9)

	// ---- methods ----
	methodKey := map[string]string{}
	nMethods := 0
	for _, f := range fns {
		if f.Parent() != nil || f.Signature.Recv() == nil || !strings.HasPrefix(f.Name(), "Sign") {
			continue
		}
		var dom ssa.CallInstruction
		for _, ci := range core.CallsNamed(f, "Domain", "GenesisDomain") {
			if ci.Common().IsInvoke() {
				dom = ci
			}
		}
		want, inOracle := domainOracle[f.Name()]
		if dom == nil {
			// batch variants may delegate to the single variant
			if inOracle {
				delegates := false
				core.EachInstr(f, func(in ssa.Instruction) {
					if c, ok := in.(*ssa.Call); ok && c.Call.StaticCallee() != nil && c.Call.StaticCallee().Pkg == f.Pkg && domainOracle[c.Call.StaticCallee().Name()] == want {
						delegates = true
					}
				})
				r.Check(delegates, "C06.a", f.Name()+"|obtains-domain", p.Pos(f.Pos()), "delegates to a method of the same domain", "the signing method obtains no domain")
			}
			continue
		}
		nMethods++
		base := f.Name()
		args := dom.Common().Args
		dt := ds.D(args[1])
		fld := ""
		dt.Walk(func(x *core.VD) bool {
			if x.Kind == "field" && strings.HasSuffix(x.Name, "DomainType") {
				fld = x.Name
			}
			return true
		})
		if fld == "" {
			r.Violate("C06.a", base+"|domain-type", p.Pos(dom.Pos()), "the domain type passed is not one of the service's domain-type fields: "+dt.String())
		} else {
			got := fieldKey[fld]
			methodKey[f.Name()] = got
			if inOracle {
				r.Check(got == want, "C06.a", base+"|domain-type", p.Pos(dom.Pos()), fmt.Sprintf("%s signs under %s (field %s)", f.Name(), got, fld), fmt.Sprintf("%s signs under %s (field %s) but the specification prescribes %s", f.Name(), got, fld, want))
				isGenesis := core.MethodName(dom.Common()) == "GenesisDomain"
				r.Check(isGenesis == (want == "DOMAIN_APPLICATION_BUILDER"), "C06.a", base+"|domain-kind", p.Pos(dom.Pos()), "fork domain for consensus duties, genesis domain for builder registrations", "the wrong kind of domain (fork vs genesis) is requested for "+f.Name())
			} else {
				r.OutOfScope = append(r.OutOfScope, fmt.Sprintf("%s signs under %s (not in the property's list)", f.Name(), got))
			}
			// optional (pointer) domain types are tested non-nil before the dereference
			if u, ok := args[1].(*ssa.UnOp); ok {
				if inner, ok := u.X.(*ssa.UnOp); ok {
					w := core.Unguarded(ds, f, nil, func(x ssa.Instruction) bool { return x == ssa.Instruction(u) }, core.NonNilGuard(ds, inner))
					if inOracle {
						r.Check(w == nil, "C06.a", base+"|optional-domain-tested", p.Pos(dom.Pos()), "the optional domain type is tested non-nil before use", "the optional domain type is dereferenced without a nil test", p.WitnessText(w)...)
					} else if w != nil {
						r.OutOfScope = append(r.OutOfScope, f.Name()+" dereferences its optional domain type without a nil test")
					}
				}
			}
		}
		// ---- (b) domain epoch ----
		if core.MethodName(dom.Common()) == "Domain" && len(args) >= 3 && inOracle {
			ed := ds.D(args[2])
			okEpoch := false
			why := ed.String()
			switch {
			case ed.Kind == "param":
				okEpoch = strings.Contains(strings.ToLower(ed.Name), "epoch")
			case ed.Kind == "binop" && ed.Name == "/":
				num, den := ed.Args[0], ed.Args[1]
				okNum := (num.Kind == "param" && strings.Contains(strings.ToLower(num.Name), "slot")) || num.HasFieldSuffix("Contribution", "Slot") || num.HasFieldSuffix("Slot")
				okEpoch = okNum && den.HasFieldSuffix("slotsPerEpoch")
			}
			r.Check(okEpoch, "C06.b", base+"|domain-epoch", p.Pos(dom.Pos()), "domain epoch = "+why, "the domain is requested for "+why+", not for the epoch of the method's own slot")
		}
		// ---- (c) message fields from like-named parameters ----
		if inOracle {
			checkMessageLiterals(p, r, ds, f)
			checkProtectingCall(p, r, ds, f)
			// RANDAO reveal: the message is the little-endian epoch; slot selection: the little-endian slot
			wantLE := ""
			switch {
			case strings.HasPrefix(f.Name(), "SignRANDAOReveal"):
				wantLE = "epoch"
			case strings.HasPrefix(f.Name(), "SignSlotSelection"):
				wantLE = "slot"
			}
			if wantLE != "" {
				found := false
				for _, pc := range core.CallsNamed(f, "PutUint64") {
					a := pc.Common().Args
					vd := ds.D(a[len(a)-1])
					isEpoch := vd.Kind == "binop" && vd.Name == "/" && vd.Args[0].Kind == "param" && strings.Contains(strings.ToLower(vd.Args[0].Name), "slot") && vd.Args[1].HasFieldSuffix("slotsPerEpoch")
					isSlot := vd.Kind == "param" && strings.Contains(strings.ToLower(vd.Name), "slot")
					ok := (wantLE == "epoch" && isEpoch) || (wantLE == "slot" && isSlot)
					found = true
					r.Check(ok, "C06.c", f.Name()+"|le64-message", p.Pos(pc.Pos()), "the message is the little-endian "+wantLE+" of the request", "the signed message encodes "+vd.String()+", expected the request's "+wantLE)
				}
				r.Check(found, "C06.c", f.Name()+"|le64-message-built", p.Pos(f.Pos()), "the message root is built from the request's "+wantLE, "no little-endian encoding of the "+wantLE+" is built as the message")
			}
		}
	}
	r.Tables["method-to-spec-key"] = methodKey
	r.Floor("C06.a signing methods obtaining a domain", nMethods, 10)

	// ---- (d) signing-data container in the helpers ----
	nSD := 0
	for _, f := range fns {
		for _, sl := range core.StructLits(f, "spec/phase0.SigningData") {
			nSD++
			base := core.FnKey(f) + "|signing-data"
			for fld, wantSfx := range map[string]string{"ObjectRoot": "root", "Domain": "domain"} {
				v := sl.Fields[fld]
				if v == nil {
					r.Violate("C06.d", base+"|"+fld, p.Pos(sl.Alloc.Pos()), fld+" is not set")
					continue
				}
				d := ds.D(v)
				root := d
				if root.Kind == "index" {
					root = root.Args[0]
				}
				ok := root.Kind == "param" && strings.Contains(strings.ToLower(root.Name), wantSfx)
				r.Check(ok, "C06.d", base+"|"+fld, p.Pos(sl.Alloc.Pos()), fld+" <- "+d.String(), fld+" of the signing data is "+d.String()+", expected the helper's "+wantSfx+" parameter")
			}
			// what is signed is the container's root
			signed := false
			for _, ci := range core.CallsNamed(f, "Sign") {
				if !ci.Common().IsInvoke() {
					continue
				}
				a := ci.Common().Args
				d := ds.D(a[len(a)-1])
				okS := d.MentionsCall("SigningData.HashTreeRoot")
				signed = signed || okS
				r.Check(okS, "C06.d", base+"|signed-bytes", p.Pos(ci.Pos()), "the bytes signed are the signing data's hash tree root", "the bytes handed to the account signer are "+d.String()+", not the signing-data root (domain not mixed in)")
			}
			r.Check(signed, "C06.d", base+"|signs-container", p.Pos(sl.Alloc.Pos()), "the container's root is what gets signed", "the signing-data container is built but its root is not what gets signed")
		}
	}
	r.Floor("C06.d signing-data containers", nSD, 2)

	// ---- (e) index spaces + verified result summaries ----
	e := newIdxEngine(p)
	decided := 0
	for _, fo := range e.FuncsOfPkg(signerRel) {
		s := e.Summary(fo)
		if s == nil {
			continue
		}
		decided += s.Accesses
		if s.Accesses > 0 && len(s.Findings) == 0 {
			r.Hold("C06.e", e.Key(fo)+"|index-spaces", "", fmt.Sprintf("%d indexed accesses / co-indexed calls consistent", s.Accesses))
		}
		for _, fd := range s.Findings {
			r.Violate("C06.e", fmt.Sprintf("%s|%s|%s", fd.Fn, fd.Kind, fd.Expr), p.Pos(fd.Pos), fd.Detail)
		}
		name := fo.Name()
		if is, ok := e.Iface[name]; ok {
			for res, prm := range is.ResultLike {
				want := fmt.Sprintf("P%d", prm)
				got := ""
				if res < len(s.Results) {
					got = s.Results[res]
				}
				r.Check(got == want, "C06.e", e.Key(fo)+"|result-parallel-to-accounts", p.Pos(fo.Pos()), "the i-th signature belongs to the i-th account (result space = accounts parameter)",
					"the result of "+name+" is not built parallel to its accounts parameter (result space "+got+"): the i-th signature may belong to another account")
			}
		}
	}
	for _, helper := range []string{"signRootsByAccountType", "signRootsMulti", "signBeaconAttestations"} {
		for _, fo := range e.FuncsOfPkg(signerRel) {
			if fo.Name() != helper {
				continue
			}
			s := e.Summary(fo)
			got := ""
			if s != nil && len(s.Results) > 0 {
				got = s.Results[0]
			}
			// accounts is the first slice parameter after ctx
			r.Check(got == "P1", "C06.e", e.Key(fo)+"|result-parallel-to-accounts", p.Pos(fo.Pos()), "helper result is parallel to its accounts parameter", "the result of "+helper+" is not built parallel to its accounts parameter (result space "+got+")")
		}
	}
	r.Count("index-space decided accesses", decided)
	r.Floor("C06.e decided indexed accesses", decided, 12)

	// ---- (f) length agreement before co-indexing ----
	for _, f := range fns {
		if f.Name() != "signRootsByAccountType" {
			continue
		}
		var firstIdx ssa.Instruction
		core.EachInstr(f, func(in ssa.Instruction) {
			if ia, ok := in.(*ssa.IndexAddr); ok && firstIdx == nil {
				if d := ds.D(ia.X); d.Kind == "param" && strings.Contains(strings.ToLower(d.Name), "root") {
					firstIdx = in
				}
			}
		})
		if firstIdx == nil {
			continue
		}
		w := core.Unguarded(ds, f, nil, func(x ssa.Instruction) bool { return x == firstIdx }, func(c core.Cond) int {
			if c.Op == "" || c.X.Kind != "len" || c.Y.Kind != "len" {
				return -1
			}
			for s := 0; s < 2; s++ {
				if c.RelOnEdge(s) == "==" {
					return s
				}
			}
			return -1
		})
		r.Check(w == nil, "C06.f", core.FnKey(f)+"|lengths-agree", p.Pos(firstIdx.Pos()), "roots are indexed only after len(accounts) == len(roots)", "roots can be indexed by the accounts' index without the lengths having been compared (panic or mis-pairing)", p.WitnessText(w)...)
	}
	sort.Strings(r.OutOfScope)
	// ---- (g) parallel slices stay parallel across calls: when a function of the signer hands a part of one
	// per-account slice (accounts[a:b]) to a callee that indexes it together with another slice, the other slice is
	// cut the same way (a batch of accounts signed with the whole — i.e. the first batch's — committee indices
	// signs every later batch over the wrong data) ----
	nPar := 0
	for _, f := range p.FuncsIn("services/signer/standard") {
		core.EachInstr(f, func(in ssa.Instruction) {
			c, ok := in.(*ssa.Call)
			if !ok {
				return
			}
			g := c.Call.StaticCallee()
			if g == nil || len(g.Blocks) == 0 || g.Pkg != f.Pkg {
				return
			}
			args := c.Call.Args
			// co-indexed slice parameters of the callee
			for i := 0; i < len(args) && i < len(g.Params); i++ {
				for j := i + 1; j < len(args) && j < len(g.Params); j++ {
					if !isSliceT(args[i].Type()) || !isSliceT(args[j].Type()) {
						continue
					}
					if !coIndexed(g, g.Params[i], g.Params[j]) {
						continue
					}
					nPar++
					si, isI := args[i].(*ssa.Slice)
					sj, isJ := args[j].(*ssa.Slice)
					same := isI == isJ
					if isI && isJ {
						same = sameOrBothNil(si.Low, sj.Low) && sameOrBothNil(si.High, sj.High)
					}
					r.Check(same, "C06.g", fmt.Sprintf("%s|%s|%s~%s#%d", core.FnKey(f), g.Name(), g.Params[i].Name(), g.Params[j].Name(), nPar), p.Pos(c.Pos()), g.Params[i].Name()+" and "+g.Params[j].Name()+" are handed over cut the same way",
						"the callee indexes "+g.Params[i].Name()+" and "+g.Params[j].Name()+" with one index, but only one of them is handed over as a sub-slice (or the two are cut differently): from the second batch on every account is signed over another account's data")
				}
			}
		})
	}
	r.Floor("C06.g calls with co-indexed slice arguments", nPar, 2)

	// ---- (l) what is signed is computed for the call at hand: the signer keeps no signature domain between calls (a
	// domain belongs to an epoch's fork; a cached one is wrong for a request on the other side of a fork), and no
	// signing root comes out of a map (a root depends on every field of the object; a memo keyed by one of them hands
	// the second object the first one's root) ----
	nKept := 0
	if pk := p.ByPath[core.ModulePath+"/"+signerRel]; pk != nil && pk.Types != nil {
		if tn, ok := pk.Types.Scope().Lookup("Service").(*types.TypeName); ok {
			if st, ok := tn.Type().Underlying().(*types.Struct); ok {
				for i := 0; i < st.NumFields(); i++ {
					ft := strings.TrimPrefix(st.Field(i).Type().String(), "*")
					// one remembered domain (a map keyed by what the domain depends on would be another matter)
					if strings.HasSuffix(ft, "/phase0.Domain") && !strings.ContainsAny(ft, "[]") {
						nKept++
						r.Violate("C06.l", "Service."+st.Field(i).Name()+"|no-domain-kept-between-calls", p.Pos(st.Field(i).Pos()), "the signer's Service keeps a signature domain in the field "+st.Field(i).Name()+": a request for an epoch on the other side of a fork from the one it was fetched for is signed under the wrong domain")
					}
				}
			}
		}
	}
	for _, f := range fns {
		core.EachInstr(f, func(in ssa.Instruction) {
			lk, ok := in.(*ssa.Lookup)
			if !ok {
				return
			}
			mt, ok := lk.X.Type().Underlying().(*types.Map)
			if !ok || !strings.HasSuffix(mt.Elem().String(), "phase0.Root") {
				return
			}
			nKept++
			r.Violate("C06.l", fmt.Sprintf("%s|no-root-from-a-map#%d", core.FnKey(f), nKept), p.Pos(lk.Pos()), "a signing root is taken out of a map keyed by "+mt.Key().String()+": the root covers every field of the object, so two objects that share the key but differ elsewhere get one root, and the second is signed over the first one's message")
		})
	}
	if nKept == 0 {
		r.Hold("C06.l", "nothing-kept-between-calls", "", "the signer keeps no signature domain in its Service and takes no signing root out of a map")
	}

	// ---- (k) the groups a batch is split into are signed independently: where a signing method tests two of its own
	// groups for being non-empty, the second test is reached whether or not the first group was empty ----
	nGroups := 0
	for _, f := range fns {
		if f.Parent() != nil {
			continue
		}
		type groupTest struct {
			iff  *ssa.If
			edge int // the edge on which the group is non-empty
			what string
		}
		var tests []groupTest
		for _, b := range f.Blocks {
			iff, ok := b.Instrs[len(b.Instrs)-1].(*ssa.If)
			if !ok {
				continue
			}
			c := core.DecodeCond(ds, iff)
			if c.Op == "" || c.X == nil || c.Y == nil {
				continue
			}
			lenOf := func(d *core.VD) ssa.Value {
				if call, ok := d.Val.(*ssa.Call); ok {
					if bi, ok := call.Call.Value.(*ssa.Builtin); ok && bi.Name() == "len" {
						return call.Call.Args[0]
					}
				}
				return nil
			}
			var coll ssa.Value
			var other *core.VD
			flip := false
			if v := lenOf(c.X); v != nil {
				coll, other = v, c.Y
			} else if v := lenOf(c.Y); v != nil {
				coll, other, flip = v, c.X, true
			}
			if coll == nil || other.Val == nil || !core.IsIntConst(other.Val, 0) {
				continue
			}
			if _, isPrm := coll.(*ssa.Parameter); isPrm {
				continue // the method's own input, not one of the groups it was split into
			}
			if _, isSlice := coll.Type().Underlying().(*types.Slice); !isSlice {
				continue
			}
			edge := -1
			for e := 0; e < 2; e++ {
				rel := c.RelOnEdge(e)
				if flip {
					rel = core.FlipRel(rel)
				}
				if rel == ">" || rel == "!=" {
					edge = e
				}
			}
			if edge < 0 {
				continue
			}
			// the non-empty arm signs: a call of a function of this package with the group among its arguments
			signs := false
			for _, ci := range core.Calls(f, func(cc *ssa.CallCommon) bool { g := cc.StaticCallee(); return g != nil && g.Pkg == f.Pkg }) {
				for _, a := range ci.Common().Args {
					if a == coll && b.Succs[edge].Dominates(ci.Block()) {
						signs = true
					}
				}
			}
			if signs {
				name := core.SourceName(coll)
				if phi, ok := coll.(*ssa.Phi); ok && phi.Comment != "" {
					name = phi.Comment
				}
				if name == "" {
					name = fmt.Sprintf("group#%d", len(tests)+1)
				}
				tests = append(tests, groupTest{iff, edge, name})
			}
		}
		for i, a := range tests {
			for j, bt := range tests {
				if i == j || !a.iff.Block().Dominates(bt.iff.Block()) {
					continue
				}
				nGroups++
				w := core.PathQuery{Fn: f, StartEdge: &[2]*ssa.BasicBlock{a.iff.Block(), a.iff.Block().Succs[a.edge]}, Target: func(in ssa.Instruction) bool { return in == ssa.Instruction(bt.iff) }}.Find()
				r.Check(w != nil, "C06.k", fmt.Sprintf("%s|groups-signed-independently|%s|%s", core.FnKey(f), a.what, bt.what), p.Pos(core.IfPos(bt.iff)), "the second group is signed whether or not the first one was empty",
					"the group "+bt.what+" is signed only when the group "+a.what+" is empty: in a batch that holds both kinds of account the second group gets no signatures (its entries stay zero-valued)")
			}
		}
	}
	// no floor: groups signed from a loop over the groups have no such pair (the catalogue edit C06-m-seed-M is the positive example)
	r.Count("C06.k pairs of independently signed groups", nGroups)
	if nGroups == 0 {
		r.Hold("C06.k", "no-pairs-of-group-tests", "", "no signing method tests two of its groups one after the other")
	}

	// ---- (m) a signature finds its place in the answer by position, never by account: a request may name one account
	// several times (a validator that sits in two sync subcommittees is signed for twice), so a map from the account
	// to "its" position keeps the last one only and the earlier place stays empty ----
	nByAcc := 0
	for _, f := range fns {
		core.EachInstr(f, func(in ssa.Instruction) {
			mu, ok := in.(*ssa.MapUpdate)
			if !ok {
				return
			}
			mt, ok := mu.Map.Type().Underlying().(*types.Map)
			if !ok {
				return
			}
			if b, ok := mt.Elem().Underlying().(*types.Basic); !ok || b.Info()&types.IsInteger == 0 {
				return
			}
			kt := mt.Key().String()
			if !strings.HasSuffix(kt, "go-eth2-wallet-types/v2.Account") && !strings.HasSuffix(kt, "phase0.BLSPubKey") {
				return
			}
			nByAcc++
			r.Violate("C06.m", fmt.Sprintf("%s|position-by-account#%d", core.FnKey(f), nByAcc), p.Pos(mu.Pos()), "a position in the request is remembered under the account ("+kt+"): a request that names the same account twice keeps only the later position, the signature for the earlier one is never put in its place (it goes out as zeros, without an error)")
		})
	}
	if nByAcc == 0 {
		r.Hold("C06.m", "positions-not-by-account", "", "no map from an account (or its public key) to a position in the signer")
	}
}

// domainKeyOfLeaf resolves one leaf stored into a domain-type field of New to its spec key, checking that a
// pointer (optional) leaf is non-nil only when the lookup succeeded.
func domainKeyOfLeaf(p *core.Prog, r *core.Report, ds *core.Describer, f *ssa.Function, lf core.Leaf, fld string, depth int) (string, bool) {
	if core.IsNilConst(lf.V) {
		return "", true
	}
	d := ds.D(lf.V)
	var call *ssa.Call
	d.Walk(func(x *core.VD) bool {
		if c, ok := x.Val.(*ssa.Call); ok && c.Call.StaticCallee() != nil && c.Call.StaticCallee().Name() == "domainType" {
			call = c
		}
		return true
	})
	// &tmp: an Alloc whose stored value is the extract of a domainType call
	if a, ok := lf.V.(*ssa.Alloc); ok && call == nil {
		if a.Referrers() != nil {
			for _, ref := range *a.Referrers() {
				if st, ok := ref.(*ssa.Store); ok && st.Addr == ssa.Value(a) {
					ds.D(st.Val).Walk(func(x *core.VD) bool {
						if c, ok := x.Val.(*ssa.Call); ok && c.Call.StaticCallee() != nil && c.Call.StaticCallee().Name() == "domainType" {
							call = c
						}
						return true
					})
				}
			}
		}
	}
	if call == nil {
		// an in-package helper wrapping the lookup
		if c, ok := lf.V.(*ssa.Call); ok && c.Call.StaticCallee() != nil && c.Call.StaticCallee().Pkg == f.Pkg && depth < 2 {
			h := c.Call.StaticCallee()
			key := ""
			okAll := true
			for _, ret := range core.ReturnsOf(h) {
				for _, l2 := range core.PhiLeaves(ret.Results[0], ret) {
					k, ok := domainKeyOfLeaf(p, r, ds, h, l2, fld, depth+1)
					if !ok {
						okAll = false
					}
					if k != "" {
						key = k
					}
				}
			}
			// the key is the helper's parameter: resolve at the call site
			if key == "param" {
				for _, a := range c.Call.Args {
					if s, ok := constString(a); ok && strings.HasPrefix(s, "DOMAIN_") {
						key = s
					}
				}
			}
			return key, okAll
		}
		r.Violate("C06.a", "New|"+fld+"|source", p.Pos(lf.At.Pos()), "field "+fld+" is not filled from the spec's domain type: "+d.String())
		return "", false
	}
	key, isConst := constString(call.Call.Args[1])
	if !isConst {
		key = "param"
	}
	// pointer leaf: only on the success edge of the lookup
	if _, isPtr := lf.V.Type().Underlying().(*types.Pointer); isPtr {
		errEx := core.ExtractOf(call, 1)
		holder := call.Parent()
		w := core.UnguardedLeaf(ds, holder, call, lf, func(c core.Cond) int { return core.ErrNilSucc(c, errEx) })
		ok := w == nil
		r.Check(ok, "C06.a", "New|"+fld+"|optional-only-when-found", p.Pos(lf.At.Pos()), "the optional domain type is set only when the spec provides it",
			"the optional domain type "+fld+" is non-nil although the spec lookup failed: the 'cannot sign' test never fires and signatures are made under the zero domain type", p.WitnessText(w)...)
		return key, ok
	}
	// value leaf: New must have returned on the error edge
	errEx := core.ExtractOf(call, 1)
	if errEx != nil {
		w := core.UnguardedLeaf(ds, call.Parent(), call, lf, func(c core.Cond) int { return core.ErrNilSucc(c, errEx) })
		r.Check(w == nil, "C06.a", "New|"+fld+"|required-found", p.Pos(lf.At.Pos()), "the required domain type is used only when the spec provides it", "a required domain type is used although its spec lookup failed", p.WitnessText(w)...)
	}
	return key, true
}

// checkMessageLiterals: struct literals of consensus message types in a signing method take each field from
// the like-named parameter.
func checkMessageLiterals(p *core.Prog, r *core.Report, ds *core.Describer, f *ssa.Function) {
	params := map[string]bool{}
	for _, prm := range f.Params {
		params[strings.ToLower(prm.Name())] = true
	}
	lits := core.StructLits(f, "")
	// parent field of nested literals
	parentOf := map[*ssa.Alloc]string{}
	for _, sl := range lits {
		for fld, v := range sl.Fields {
			if a, ok := v.(*ssa.Alloc); ok {
				parentOf[a] = fld
			}
		}
	}
	for _, sl := range lits {
		tn := typeName(sl.Alloc.Type())
		if !(strings.HasPrefix(tn, "phase0.") || strings.HasPrefix(tn, "altair.")) || strings.HasSuffix(tn, "SigningData") {
			continue
		}
		parent := strings.ToLower(parentOf[sl.Alloc])
		for fld, v := range sl.Fields {
			if _, nested := v.(*ssa.Alloc); nested {
				continue
			}
			d := ds.D(v)
			root := d
			for root.Kind == "field" || root.Kind == "index" {
				root = root.Args[0]
			}
			construct := f.Name() + "|" + tn + "." + fld
			if root.Kind != "param" {
				// constants such as the epoch's little-endian encoding are handled elsewhere
				if d.Kind == "const" {
					r.Violate("C06.c", construct, p.Pos(sl.Stores[fld].Pos()), "message field "+fld+" is the constant "+d.Name+", not a parameter of the request")
				}
				continue
			}
			pn := strings.ToLower(root.Name)
			lf := strings.ToLower(fld)
			if d.Kind == "index" {
				// element of a per-account list: compare with the singular of the list's name
				switch {
				case strings.HasSuffix(pn, "indices"):
					pn = strings.TrimSuffix(pn, "indices") + "index"
				case strings.HasSuffix(pn, "s"):
					pn = strings.TrimSuffix(pn, "s")
				}
			}
			ok := pn == lf || pn == parent+lf || (strings.HasSuffix(pn, lf) && (parent == "" || strings.HasPrefix(pn, parent))) ||
				(lf == "beaconblockroot" && pn == "blockroot") || (d.Kind == "index" && strings.HasPrefix(pn, lf)) || (d.Kind == "index" && strings.Contains(pn, lf))
			r.Check(ok, "C06.c", construct, p.Pos(sl.Stores[fld].Pos()), fld+" <- parameter "+root.Name, "message field "+fld+" (of "+parentOf[sl.Alloc]+") is filled from parameter "+root.Name+": the signing root would be over another value than requested")
		}
	}
}

// checkProtectingCall: the slashing-protecting signer's method receives, per position, the method's parameter
// whose name matches the library's parameter name.
func checkProtectingCall(p *core.Prog, r *core.Report, ds *core.Describer, f *ssa.Function) {
	core.EachInstr(f, func(in ssa.Instruction) {
		c, ok := in.(*ssa.Call)
		if !ok || !c.Call.IsInvoke() || !strings.Contains(c.Call.Value.Type().String(), "AccountProtectingSigner") {
			return
		}
		sig := c.Call.Method.Type().(*types.Signature)
		for i := 0; i < sig.Params().Len() && i < len(c.Call.Args); i++ {
			want := strings.ToLower(sig.Params().At(i).Name())
			if want == "" || want == "ctx" || want == "domain" {
				continue
			}
			d := ds.D(c.Call.Args[i])
			root := d
			for root.Kind == "field" || root.Kind == "index" || root.Kind == "slice" {
				root = root.Args[0]
			}
			if root.Kind != "param" {
				continue
			}
			got := strings.ToLower(root.Name)
			ok := got == want || strings.HasSuffix(got, want) || strings.HasSuffix(want, got) || (want == "data" || want == "root")
			r.Check(ok, "C06.c", fmt.Sprintf("%s|protecting-signer.%s|arg-%s", f.Name(), c.Call.Method.Name(), want), p.Pos(c.Pos()), "library parameter "+want+" <- "+root.Name, "the protecting signer's parameter "+want+" receives "+root.Name)
		}
	})
}

func isSliceT(t types.Type) bool { _, ok := t.Underlying().(*types.Slice); return ok }

func sameOrBothNil(a, b ssa.Value) bool {
	if a == nil || b == nil {
		return a == nil && b == nil
	}
	return a == b || sameExpr(a, b, 0)
}

// coIndexed: the function indexes both slice parameters with one index value (directly, or hands both to a
// callee that does).
func coIndexed(g *ssa.Function, a, b *ssa.Parameter) bool {
	return coIndexedDepth(g, a, b, 0)
}

func coIndexedDepth(g *ssa.Function, a, b *ssa.Parameter, depth int) bool {
	idxA := map[ssa.Value]bool{}
	found := false
	core.EachInstr(g, func(in ssa.Instruction) {
		if ia, ok := in.(*ssa.IndexAddr); ok && ia.X == ssa.Value(a) {
			idxA[ia.Index] = true
		}
	})
	core.EachInstr(g, func(in ssa.Instruction) {
		if ia, ok := in.(*ssa.IndexAddr); ok && ia.X == ssa.Value(b) && idxA[ia.Index] {
			found = true
		}
		if c, ok := in.(*ssa.Call); ok && depth < 2 && !found {
			h := c.Call.StaticCallee()
			if h == nil || len(h.Blocks) == 0 {
				return
			}
			pa, pb := -1, -1
			for k, x := range c.Call.Args {
				if x == ssa.Value(a) {
					pa = k
				}
				if x == ssa.Value(b) {
					pb = k
				}
			}
			if pa >= 0 && pb >= 0 && pa < len(h.Params) && pb < len(h.Params) && coIndexedDepth(h, h.Params[pa], h.Params[pb], depth+1) {
				found = true
			}
		}
	})
	return found
}

// checkNoShadowedResults: see core.ShadowedResults; error-typed variables are left to the error rules.
func checkNoShadowedResults(p *core.Prog, r *core.Report, rule string, rels []string, consequence string) {
	n := 0
	for _, sh := range p.ShadowedResults(rels...) {
		if sh.IsError {
			continue
		}
		n++
		r.Violate(rule, fmt.Sprintf("%s.%s|shadows|%s#%d", sh.Pkg, sh.Func, sh.Name, n), p.Pos(sh.Inner), "`"+sh.Name+" :=` in a nested block hides the "+sh.Name+" of the enclosing function, which is read again at "+p.Pos(sh.UsedAt)+": "+consequence)
	}
	if n == 0 {
		r.Hold(rule, "no-shadowed-results", "", "no nested short declaration hides a variable that is read after the block ("+strings.Join(rels, ", ")+")")
	}
}
