#!/bin/bash
# usage: bt.sh <benign-patch> <prop> [grep-pattern] : runs one pack of bin/vcheck.new (or bin/vcheck) on a scratch worktree with the patch applied
patch=$(readlink -f "$1"); prop="$2"; pat="${3:-violated|UNDECIDED|FLOOR|^C[0-9]+:}"
wt=${BT_WT:-/tmp/wt_bt}
git -C /repo worktree remove --force $wt >/dev/null 2>&1; rm -rf $wt
git -C /repo worktree add --detach $wt HEAD >/dev/null 2>&1 || exit 2
git -C $wt apply "$patch" || exit 3
bin=${BT_BIN:-/verif/bin/vcheck.new}; [ -x $bin ] || bin=/verif/bin/vcheck
cd /verif && VCHECK_LIST=${VCHECK_LIST:-} VCHECK_NO_MUTANTS=1 $bin -repo $wt -prop "$prop" -no-evidence 2>&1 | grep -E "$pat" | cut -c1-${CUT:-400}
