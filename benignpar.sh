#!/bin/bash
# usage: benignpar.sh <out-file> <patch>...   : runs every property's rules on each behaviour-preserving patch, each
# in its own scratch worktree of /repo (removed afterwards), 6 at a time (BENIGN_PAR).
out="$1"; shift
one() {
  patch="$(readlink -f "$1")"; label=$(echo "$patch" | awk -F/ '{print $(NF-2)"/"$(NF-1)"/"$NF}'); id=$(echo "$patch" | md5sum | cut -c1-8); wt=/tmp/wt_benign_$id
  git -C /repo worktree remove --force $wt >/dev/null 2>&1
  git -C /repo worktree add --detach $wt HEAD >/dev/null 2>&1 || { echo "$patch: worktree failed"; return; }
  if ! git -C $wt apply "$patch" 2>/dev/null; then echo "$label: DOES NOT APPLY"; git -C /repo worktree remove --force $wt >/dev/null 2>&1; return; fi
  bad=""; detail=""
  o=$(cd /verif && VCHECK_NO_MUTANTS=1 ${VCHECK_BIN:-bin/vcheck} -repo $wt -prop all -no-evidence 2>&1); rc=$?
  if [ $rc -ne 0 ]; then
    bad=" $(echo "$o" | grep -E "^== C[0-9]+ rc=[12]" | sed -E 's/^== (C[0-9]+) rc=([0-9])/\1(rc=\2)/' | tr '\n' ' ')"
    [ "$bad" = " " ] && bad=" checker-failed(rc=$rc)"
    detail="$(echo "$o" | grep -E "violated|UNDECIDED|undecided|CHECKER-ERROR|FLOOR|panic" | head -12 | cut -c1-380 | sed "s|^|    |")
"
  fi
  echo "$label: ${bad:- all 20 checks exit 0}
$detail" | sed '/^$/d'
  git -C /repo worktree remove --force $wt >/dev/null 2>&1; rm -rf $wt
}
export -f one
printf "%s\n" "$@" | xargs -P ${BENIGN_PAR:-6} -I{} bash -c 'one {}' > "$out" 2>&1
