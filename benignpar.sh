#!/bin/bash
# usage: benignpar.sh <out-file> <patch>...   : runs every property's rules on each behaviour-preserving patch, each
# in its own scratch worktree of /repo (removed afterwards), 6 at a time.
out="$1"; shift
one() {
  patch="$1"; id=$(echo "$patch" | md5sum | cut -c1-8); wt=/tmp/wt_benign_$id
  git -C /repo worktree remove --force $wt >/dev/null 2>&1
  git -C /repo worktree add --detach $wt HEAD >/dev/null 2>&1 || { echo "$patch: worktree failed"; return; }
  if ! git -C $wt apply "$patch" 2>/dev/null; then echo "$(basename $(dirname $patch))/$(basename $patch): DOES NOT APPLY"; git -C /repo worktree remove --force $wt >/dev/null 2>&1; return; fi
  bad=""; detail=""
  for p in C01 C02 C03 C04 C05 C06 C07 C08 C09 C10 C11 C12 C13 C14 C15 C16 C17 C18 C19 C20; do
    o=$(cd /verif && VCHECK_NO_MUTANTS=1 bin/vcheck -repo $wt -prop "$p" -no-evidence 2>&1); rc=$?
    if [ $rc -ne 0 ]; then bad="$bad $p(rc=$rc)"; detail="$detail$(echo "$o" | grep -E "violated|UNDECIDED|undecided|CHECKER-ERROR|FLOOR|panic" | head -5 | cut -c1-380 | sed "s|^|    [$p] |")
"; fi
  done
  echo "$(basename $(dirname $patch))/$(basename $patch): ${bad:- all 20 checks exit 0}
$detail" | sed '/^$/d'
  git -C /repo worktree remove --force $wt >/dev/null 2>&1; rm -rf $wt
}
export -f one
printf "%s\n" "$@" | xargs -P 6 -I{} bash -c 'one {}' > "$out" 2>&1
