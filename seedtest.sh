#!/bin/bash
# usage: seedtest.sh <patch> <prop>... : applies a seeded patch to /repo, runs the quick checks, reverts.
patch="$1"; shift
cd /repo || exit 2
git diff --quiet || { echo "repo dirty"; exit 2; }
git apply "$patch" || { echo "PATCH DOES NOT APPLY: $patch"; exit 3; }
for p in "$@"; do
  out=$(cd /verif && VCHECK_NO_MUTANTS=1 ${VCHECK_BIN:-bin/vcheck} -prop "$p" -no-evidence 2>&1)
  rc=$?
  echo "== $p rc=$rc"; echo "$out" | grep -E "violated|UNDECIDED|CHECKER-ERROR|FLOOR" | head -8
done
git checkout -- . ; git clean -fdq
