#!/bin/bash
# usage: seedtest.sh <patch> <prop>... : applies a seeded patch, runs the quick checks, reverts.
# With SEEDTEST_WT=<dir> the patch is applied to a scratch worktree of /repo at <dir> (created, removed afterwards)
# and the checker is pointed at it, so that several can run side by side; otherwise /repo's working tree is used.
patch=$(readlink -f "$1"); shift
if [ -n "$SEEDTEST_WT" ]; then
  wt="$SEEDTEST_WT"
  git -C /repo worktree remove --force "$wt" >/dev/null 2>&1; rm -rf "$wt"
  git -C /repo worktree add --detach "$wt" HEAD >/dev/null 2>&1 || { echo "cannot create worktree $wt"; exit 2; }
  git -C "$wt" apply "$patch" || { echo "PATCH DOES NOT APPLY: $patch"; git -C /repo worktree remove --force "$wt"; exit 3; }
  for p in "$@"; do
    out=$(cd /verif && VCHECK_NO_MUTANTS=1 ${VCHECK_BIN:-bin/vcheck} -repo "$wt" -prop "$p" -no-evidence 2>&1)
    rc=$?
    echo "== $p rc=$rc"; echo "$out" | grep -E "violated|UNDECIDED|CHECKER-ERROR|FLOOR" | head -8
  done
  git -C /repo worktree remove --force "$wt" >/dev/null 2>&1; rm -rf "$wt"
  exit 0
fi
cd /repo || exit 2
git diff --quiet || { echo "repo dirty"; exit 2; }
git apply "$patch" || { echo "PATCH DOES NOT APPLY: $patch"; exit 3; }
for p in "$@"; do
  out=$(cd /verif && VCHECK_NO_MUTANTS=1 ${VCHECK_BIN:-bin/vcheck} -prop "$p" -no-evidence 2>&1)
  rc=$?
  echo "== $p rc=$rc"; echo "$out" | grep -E "violated|UNDECIDED|CHECKER-ERROR|FLOOR" | head -8
done
git checkout -- . ; git clean -fdq
