#!/bin/bash
# Entry point of every check: ./run.sh Cnn quick|thorough   or   ./run.sh --replay <file>
# Rebuilds the checker if needed and analyses /repo's working tree as it is now.
set -u
cd "$(dirname "$0")"
export GOFLAGS=-mod=mod GOPROXY=off GOSUMDB=off GOTOOLCHAIN=local GOWORK=off
unset GOARCH GOOS
REPO="${VERIF_REPO:-/repo}"
build() {
  if [ ! -x bin/vcheck ] || [ -n "$(find checker -name '*.go' -newer bin/vcheck -print -quit 2>/dev/null)" ] || [ checker/go.mod -nt bin/vcheck ]; then
    mkdir -p bin
    (cd checker && go build -o ../bin/vcheck.tmp.$$ ./cmd/vcheck && mv ../bin/vcheck.tmp.$$ ../bin/vcheck) || { echo "CHECKER-ERROR build failed"; exit 2; }
  fi
}
build
if [ "${1:-}" = "--replay" ]; then
  f="${2:?replay file}"
  prop=$(basename "$f" | cut -d- -f1)
  exec bin/vcheck -repo "$REPO" -verif "$(pwd)" -prop "$prop" -tier quick -no-evidence -replay "$f"
fi
prop="${1:?property id}"
tier="${2:-${VERIF_TIER:-quick}}"
exec bin/vcheck -repo "$REPO" -verif "$(pwd)" -prop "$prop" -tier "$tier"
