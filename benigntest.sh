#!/bin/bash
# usage: benigntest.sh <dir-with-R*.patch.diff> : applies each behaviour-preserving patch to /repo, runs
# every property's rules (no mutants), reports any check that does not exit 0, reverts.
dir="$1"
cd /repo || exit 2
git diff --quiet || { echo "repo dirty"; exit 2; }
for patch in "$dir"/R*.patch.diff; do
  [ -f "$patch" ] || continue
  git apply "$patch" 2>/dev/null || { echo "$(basename $dir)/$(basename $patch): DOES NOT APPLY"; continue; }
  bad=""
  for p in C01 C02 C03 C04 C05 C06 C07 C08 C09 C10 C11 C12 C13 C14 C15 C16 C17 C18 C19 C20; do
    out=$(cd /verif && VCHECK_NO_MUTANTS=1 bin/vcheck -prop "$p" -no-evidence 2>&1); rc=$?
    if [ $rc -ne 0 ]; then
      bad="$bad $p(rc=$rc)"
      echo "$out" | grep -E "violated|UNDECIDED|undecided|CHECKER-ERROR|FLOOR|panic" | head -6 | cut -c1-400 | sed "s|^|    [$p] |"
    fi
  done
  echo "$(basename $dir)/$(basename $patch): ${bad:- all 20 checks exit 0}"
  git checkout -- . ; git clean -fdq
done
